#!/venv/bin/python
"""Intake of an independently written breaking change.

  seed_intake.py <source dir with patch.diff, demo.py, notes.md> <property> <seeded id>

Confirms, in a scratch clone of /repo outside /repo and /verif (removed afterwards):
  1. the patch applies to the current HEAD of /repo,
  2. the repository's own tests still pass with it,
  3. the demonstration fails (non-zero) with the change and passes (zero) without it,
and then copies patch.diff, demo.py, notes.md to /verif/seeded/<id>/ with a meta.json
recording what was run.  Whether the checks catch it is established separately by
selftest/sensitivity.py --dir seeded.
"""
import json
import os
import shutil
import subprocess
import sys
import tempfile

PY = '/venv/bin/python'


def sh(cmd, **kw):
    return subprocess.run(cmd, capture_output=True, text=True, **kw)


def main():
    src, prop, sid = sys.argv[1], sys.argv[2], sys.argv[3]
    scratch = tempfile.mkdtemp(prefix='ombott_seed_', dir='/tmp')
    repo = os.path.join(scratch, 'repo')
    try:
        sh(['git', 'clone', '-q', '--no-hardlinks', '/repo', repo], check=True)
        head = sh(['git', '-C', repo, 'rev-parse', '--short', 'HEAD']).stdout.strip()
        env = dict(os.environ, PYTHONPATH=repo, OMBOTT_DEMO_REPO=repo, PYTHONDONTWRITEBYTECODE='1')
        demo = os.path.join(src, 'demo.py')
        clean = sh([PY, demo], env=env, cwd=scratch, timeout=600)
        ap = sh(['git', '-C', repo, 'apply', os.path.join(os.path.abspath(src), 'patch.diff')])
        if ap.returncode != 0:
            print('REJECT: patch does not apply:', ap.stderr[-300:])
            return 1
        tests = sh([PY, '-m', 'pytest', '-q', '-p', 'no:cacheprovider'], env=env, cwd=repo, timeout=900)
        tests_tail = (tests.stdout.strip().splitlines() or [''])[-1]
        changed = sh([PY, demo], env=env, cwd=scratch, timeout=600)
        ok = (clean.returncode == 0 and changed.returncode != 0 and tests.returncode == 0)
        print(f'patch applies: yes; tests with change: {tests_tail!r}; demo clean exit={clean.returncode}, '
              f'demo changed exit={changed.returncode}')
        if not ok:
            print('REJECT')
            print(clean.stdout[-300:], clean.stderr[-300:], changed.stdout[-300:], changed.stderr[-300:])
            return 1
        dst = os.path.join('/verif/seeded', sid)
        os.makedirs(dst, exist_ok=True)
        for f in ('patch.diff', 'demo.py', 'notes.md'):
            if os.path.exists(os.path.join(src, f)):
                shutil.copy(os.path.join(src, f), os.path.join(dst, f))
        notes = open(os.path.join(src, 'notes.md')).read() if os.path.exists(os.path.join(src, 'notes.md')) else ''
        meta = {
            'id': sid, 'property': prop, 'origin': 'independent sub-agent given only the property text and a scratch worktree',
            'needs_to_manifest': notes.strip().splitlines()[:40],
            'confirmed': {
                'repo_head': head,
                'patch_applies': True,
                'repo_tests_with_change': tests_tail,
                'demo_exit_without_change': clean.returncode,
                'demo_exit_with_change': changed.returncode,
                'demo_output_with_change': changed.stdout.strip().splitlines()[-6:],
                'commands': ['git clone /repo <scratch>; git apply patch.diff', f'{PY} -m pytest -q -p no:cacheprovider',
                             f'OMBOTT_DEMO_REPO=<scratch> {PY} demo.py (before and after applying the patch)'],
            },
        }
        with open(os.path.join(dst, 'meta.json'), 'w') as f:
            json.dump(meta, f, indent=1)
        print('ACCEPTED ->', dst)
        return 0
    finally:
        shutil.rmtree(scratch, ignore_errors=True)


if __name__ == '__main__':
    sys.exit(main())
