#!/bin/bash
# intake every /tmp/seeded_out/<prop>/change<k> not yet under /verif/seeded, then run the checks against the new ones
new=""
for d in ${SRC:-/tmp/seeded_out}/C*/change*; do
  [ -f "$d/patch.diff" ] || continue
  prop=$(basename $(dirname $d)); k=$(basename $d | sed 's/change//')
  round=${ROUND:-r1}
  id="$prop-$round-$k"
  [ -d /verif/seeded/$id ] && continue
  [ -f "$d/.rejected" ] && continue
  echo "== $id"
  if /venv/bin/python /verif/tools/seed_intake.py $d $prop $id; then new="$new,$id"; else touch $d/.rejected; fi
done
new=${new#,}
if [ -n "$new" ]; then
  timeout 7200 /venv/bin/python /verif/selftest/sensitivity.py --dir seeded --only "$new" --budget ${BUDGET:-30} --no-tests
fi
