#!/bin/bash
# usage: mutcheck.sh <patch-file> <prop> [extra simcheck args]
# Applies a patch to /repo, runs the property's check (no evidence written), and always restores /repo.
set -u
patch="$1"; prop="$2"; shift 2
cd /repo || exit 3
if ! git diff --quiet; then echo "repo dirty"; exit 3; fi
git apply "$patch" || { echo "patch does not apply"; exit 3; }
trap 'git -C /repo checkout -- . ' EXIT
timeout 1200 /venv/bin/python /verif/simcheck.py "$prop" --tier quick --no-evidence --no-selftest "$@" 2>&1 | grep -E "VIOLATION|KNOWN-FINDING|HARNESS|tier=" | cut -c1-300
echo "exit=${PIPESTATUS[0]}"
