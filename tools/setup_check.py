#!/venv/bin/python
"""MANIFEST.setup_cmd: nothing is compiled; verify interpreter and imports only."""
import sys, os
sys.path.insert(0, os.path.dirname(os.path.dirname(os.path.abspath(__file__))))
assert sys.version_info >= (3, 8), sys.version
from sim import core
o = core.ensure_repo()
from sim import stream, wsgi, shrink, bodyreq  # noqa
os.makedirs(core.EVIDENCE_DIR, exist_ok=True)
print('setup ok: python', sys.version.split()[0], 'ombott from', o.__file__)
