#!/venv/bin/python
"""Which lines of /repo/ombott do the checks' generators actually execute?

  COVERAGE_CORE=sysmon tools/coverage_probe.py <Cxx> [n_seeded] [n_unit_cases] [outdir]

Runs n seeded quick-tier cases (and the first cases of every sweep unit) of one property in this process under
coverage.py's sys.monitoring core (which does not collide with the scheduler's sys.settrace) and writes the data
file <outdir>/<Cxx>.cov.  Combine and report with `coverage combine` / `coverage report -m`.
A reach measure for the harness, not a check: lines never executed by any check are blind spots of the generators.
"""
import os
import random
import sys

os.environ.setdefault('COVERAGE_CORE', 'sysmon')
sys.path.insert(0, os.path.dirname(os.path.dirname(os.path.abspath(__file__))))
import coverage   # noqa

prop = sys.argv[1]
n = int(sys.argv[2]) if len(sys.argv) > 2 else 2000
nu = int(sys.argv[3]) if len(sys.argv) > 3 else 400
outdir = sys.argv[4] if len(sys.argv) > 4 else '/tmp/cov'
from sim import core   # noqa
cov = coverage.Coverage(data_file=os.path.join(outdir, prop + '.cov'), source=[os.path.join(core.REPO, 'ombott')])
cov.start()
core.ensure_repo()
mod = core.load_prop(prop.lower())
setup = getattr(mod, 'setup_worker', None)
if setup:
    setup()
root = 20260928
for i in range(n):
    seed = core.derive(root, mod.PROP, i)
    case = mod.gen_case(random.Random(seed), 'quick')
    case['_seed'] = seed
    core.run_one(mod, case)
if hasattr(mod, 'sweep_units'):
    done = 0
    for u in mod.sweep_units('quick', root):
        for j, case in enumerate(mod.expand_unit(u)):
            core.run_one(mod, case)
            done += 1
            if j > 40 or done >= nu:
                break
        if done >= nu:
            break
cov.stop()
cov.save()
print(prop, 'done')
