#!/venv/bin/python
"""False-alarm self-test: property-preserving changes (refactorings written by sub-agents that were given the
property statements and asked to keep every one of them true) are applied one at a time to a scratch clone of /repo
(outside /repo and /verif, removed afterwards); the repository's tests must pass and EVERY quick check must end with
exit 0 - no VIOLATION, no HARNESS-ERROR.

  benign_check.py [--src DIR ...] [--only SUBSTR] [--budget S] [--props C03,C04] [--out FILE]

A source is a directory containing patch.diff (and notes.md); default: /verif/benign/*.
"""
import argparse
import glob
import json
import os
import shutil
import subprocess
import sys
import tempfile
import time

VERIF = os.path.dirname(os.path.dirname(os.path.abspath(__file__)))
PY = '/venv/bin/python'
PROPS = ['C03', 'C04', 'C05', 'C06', 'C07', 'C08', 'C09', 'C10', 'C11', 'C12', 'C13']


def run_one(name, patch, props, budget):
    scratch = tempfile.mkdtemp(prefix='ombott_benign_', dir='/tmp')
    repo = os.path.join(scratch, 'repo')
    row = {'name': name, 'checks': {}}
    try:
        subprocess.run(['git', 'clone', '-q', '--no-hardlinks', '/repo', repo], check=True, capture_output=True)
        ap = subprocess.run(['git', '-C', repo, 'apply', patch], capture_output=True, text=True)
        if ap.returncode != 0:
            row['result'] = 'patch-does-not-apply'
            return row
        t = subprocess.run([PY, '-m', 'pytest', '-q', '-p', 'no:cacheprovider', '-x'], cwd=repo, capture_output=True, text=True,
                           timeout=600, env=dict(os.environ, PYTHONPATH=repo, PYTHONDONTWRITEBYTECODE='1'))
        row['tests_pass'] = t.returncode == 0
        env = dict(os.environ, OMBOTT_REPO=repo, PYTHONDONTWRITEBYTECODE='1', VERIF_REPLAY_DIR=os.path.join(scratch, 'replays'))
        bad = []
        for p in props:
            t0 = time.time()
            c = subprocess.run([PY, os.path.join(VERIF, 'simcheck.py'), p, '--tier', 'quick', '--no-evidence', '--budget', str(budget)],
                               capture_output=True, text=True, timeout=3600, env=env)
            lines = [ln for ln in c.stdout.splitlines() if ln.startswith(('violation class=', 'HARNESS-ERROR', 'VIOLATION'))]
            row['checks'][p] = {'exit': c.returncode, 'wall_s': round(time.time() - t0, 1), 'lines': [ln[:400] for ln in lines[:4]]}
            if c.returncode != 0:
                bad.append(p)
                keep = os.path.join('/tmp/benign_alarms', name.replace('/', '_') + '-' + p)
                os.makedirs(keep, exist_ok=True)
                with open(os.path.join(keep, 'stdout.txt'), 'w') as f:
                    f.write(c.stdout[-20000:] + '\n--- stderr ---\n' + c.stderr[-8000:])
                rd = os.path.join(scratch, 'replays')
                if os.path.isdir(rd):
                    for fn in os.listdir(rd)[:6]:
                        shutil.copy(os.path.join(rd, fn), keep)
        row['result'] = 'quiet' if not bad else 'ALARM:' + ','.join(bad)
        return row
    finally:
        shutil.rmtree(scratch, ignore_errors=True)


def main():
    ap = argparse.ArgumentParser()
    ap.add_argument('--src', nargs='*')
    ap.add_argument('--only')
    ap.add_argument('--budget', type=float, default=10)
    ap.add_argument('--props')
    ap.add_argument('--out')
    a = ap.parse_args()
    srcs = a.src or sorted(glob.glob(os.path.join(VERIF, 'benign', '*')))
    props = a.props.split(',') if a.props else PROPS
    rows = []
    for d in srcs:
        patch = os.path.join(d, 'patch.diff')
        name = '/'.join(d.rstrip('/').split('/')[-2:])
        if not os.path.exists(patch) or (a.only and not any(s in name for s in a.only.split(','))):
            continue
        r = run_one(name, patch, props, a.budget)
        rows.append(r)
        print(f"{r['result']:>24}  {name}  tests_pass={r.get('tests_pass')}  "
              + ' '.join(f"{p}:{v['exit']}" for p, v in r['checks'].items()), flush=True)
    if a.out:
        with open(a.out, 'w') as f:
            json.dump(rows, f, indent=1)
    alarms = [r['name'] for r in rows if r['result'] != 'quiet']
    print(json.dumps({'changes': len(rows), 'quiet': len(rows) - len(alarms), 'alarms': alarms}))
    return 0 if not alarms else 1


if __name__ == '__main__':
    sys.exit(main())
