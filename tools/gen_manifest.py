#!/usr/bin/env python3
"""Regenerates /verif/MANIFEST.json from the table below (kept as code so the
manifest stays consistent with what is built)."""
import json, os
HERE = os.path.dirname(os.path.dirname(os.path.abspath(__file__)))
PY = '/venv/bin/python'

CHECKS = {
 'C04': dict(engine='E-stream', category='fault_enumeration', design='DESIGN.md 4/C04',
   technique='deterministic simulation of the body transport (SimStream) with seeded fragmentation, early-EOF and surplus faults; exhaustive cut/EOF sweeps on small bodies',
   text='Simulated wsgi.input delivers every generated body under seeded delivery schedules (short reads, byte-wise, segment cuts), early EOF and surplus bytes; for small bodies every early-EOF offset x every single cut is enumerated. The body seen by a handler through Ombott.__call__ (and by _body_read directly) is compared with the bytes the stream was given, and the stream\'s own read accounting proves it was never read or asked beyond Content-Length.',
   note='Trusts SimStream to model the file read(n) contract; seeded sampling beyond the enumerated small cases; Content-Length assumed a valid non-negative integer.'),
 'C05': dict(engine='E-stream', category='fault_enumeration', design='DESIGN.md 4/C05',
   technique='deterministic simulation of the body transport with a reference chunked encoder; every strict prefix (EOF at each offset), every CRLF break and framing-byte corruption enumerated per small encoding, seeded beyond',
   text='A reference client encodes payloads under all legal spellings; the simulator delivers the encoding under seeded fragmentation and injects exactly one fault per run: EOF at an offset (all offsets enumerated for small encodings), a broken CRLF after chunk data (all variants), or a corrupted framing byte. Fault-free runs must give the exact payload, truncations before the last-chunk line and CRLF breaks must be rejected (400 / BodyParsingError), corruptions must give 2xx or 4xx, never 5xx or a hang.',
   note='Size lines longer than max_memfile_size are only required to give {exact, 4xx}. Trusts the reference encoder and SimStream.'),
}
NOT_APPLICABLE = {
 'C01': 'pure function of (rule set, path): no schedule, fault, clock or I/O for a simulator to control (edit histories are C11)',
 'C02': 'pure function of (method table, verb, path): nothing nondeterministic to simulate',
 'C14': 'pure function of the value offered to a header setter',
 'C15': 'pure function of (value, secret, tampered string): a stateless verifier, no instant or stream for a fault to land in',
 'C16': 'pure function of (filename, root, directory tree)',
 'C17': 'pure function of (file bytes, request headers); the only clock use is the emitted Date header',
 'C18': 'pure function of a string',
 'C19': 'pure function of (rule, parameters)',
 'C20': 'pure function of (path, query, Host, error kind)',
}

def main():
    checks = []
    for pid, c in sorted(CHECKS.items()):
        checks.append({
            'property_id': pid,
            'quick_cmd': f'{PY} /verif/simcheck.py {pid} --tier quick',
            'thorough_cmd': f'{PY} /verif/simcheck.py {pid} --tier thorough',
            'evidence_file': f'/verif/evidence/{pid}.json',
            'replay_cmd_template': f'{PY} /verif/simcheck.py {pid} --replay {{path}}',
            'engine': c['engine'],
            'level_claimed': {'category': c['category'], 'text': c['text'], 'design_ref': c['design']},
            'level_note': c['note'],
            'technique': c['technique'],
        })
    claimed = set(CHECKS)
    props = [json.loads(l)['id'] for l in open(os.path.join(HERE, 'properties.jsonl'))]
    na = []
    for pid in props:
        if pid in claimed:
            continue
        reason = NOT_APPLICABLE.get(pid) or 'deterministic-simulation check not built yet (planned, see DESIGN.md section 4)'
        na.append({'property_id': pid, 'reason': reason})
    m = {
        'version': 1,
        'setup_cmd': f'{PY} /verif/tools/setup_check.py',
        'hooks': {
            'guard': 'OMBOTT_VERIF',
            'enable': 'no hook is needed: all seams (environ[wsgi.input].read, body_mixin.TemporaryFile, callbacks, sys.settrace) are plain Python values replaced from the harness; OMBOTT_VERIF is reserved and unused',
            'baseline_off_cmd': 'cd /repo && /venv/bin/python -m pytest -ra -q -p no:cacheprovider --timeout=900 --continue-on-collection-errors',
            'source_commits': [],
            'add_only': True,
        },
        'engines': [
            {'name': 'E-stream', 'path': '/verif/sim/stream.py', 'serves_properties': ['C04', 'C05', 'C06', 'C07', 'C12', 'C13'],
             'kind_free_text': 'simulated wsgi.input with seeded delivery schedules, EOF/surplus/corruption faults, read accounting, temp-file seam'},
            {'name': 'E-wsgi', 'path': '/verif/sim/wsgi.py', 'serves_properties': ['C03'] , 'kind_free_text': 'simulated WSGI server: environ builder, start_response recorder, iteration/close driver, PEP 3333 validator'},
            {'name': 'E-sched', 'path': '/verif/sim/sched.py', 'serves_properties': ['C08', 'C10'], 'kind_free_text': 'deterministic scheduler for real threads: baton passing, sys.settrace line events as pre-emption points, explicit switch lists'},
            {'name': 'E-hist', 'path': '/verif/sim/core.py', 'serves_properties': ['C09', 'C10', 'C11'], 'kind_free_text': 'seeded operation histories executed against the real system and a reference model, ddmin shrinking'},
        ],
        'checks': checks,
        'not_applicable': na,
        'notes': 'Deterministic simulation with fault injection; see DESIGN.md. Fixes of genuine defects are listed in known_findings.json.',
    }
    with open(os.path.join(HERE, 'MANIFEST.json'), 'w') as f:
        json.dump(m, f, indent=1)
    print('wrote MANIFEST.json with', len(checks), 'checks;', len(na), 'not claimed')

main()
