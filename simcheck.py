#!/venv/bin/python
"""Single CLI entry of the ombott deterministic-simulation checks.

  simcheck.py <Cxx> --tier quick|thorough [--seed N] [--budget S] [--runs N] [--workers W]
  simcheck.py <Cxx> --replay FILE
  simcheck.py <Cxx> --digests i,j,k [--tier T]      (used by the determinism self-test)

exit 0: property held on everything explored (KNOWN-FINDING lines possible)
exit 1: `VIOLATION property=<id> replay=<path>` printed
exit 2: `HARNESS-ERROR ...` (never reported as a pass, never as a violation)
"""
import os
import sys

# --- pin interpreter-level nondeterminism before anything else -----------------
_want = os.environ.get('VERIF_HASHSEED', '0')
if os.environ.get('PYTHONHASHSEED') != _want:
    os.environ['PYTHONHASHSEED'] = _want
    os.execv(sys.executable, [sys.executable] + sys.argv)

import argparse
import json
import random
import subprocess
import time
import traceback

HERE = os.path.dirname(os.path.abspath(__file__))
if HERE not in sys.path:
    sys.path.insert(0, HERE)

from sim import core  # noqa
from sim.core import HarnessError  # noqa
from sim import shrink  # noqa

DEFAULT_SEED = {'quick': 20260928, 'thorough': 20260929}


def main():
    ap = argparse.ArgumentParser()
    ap.add_argument('prop')
    ap.add_argument('--tier', default=os.environ.get('VERIF_TIER', 'quick'), choices=['quick', 'thorough'])
    ap.add_argument('--seed', type=int, default=None)
    ap.add_argument('--budget', type=float, default=None)
    ap.add_argument('--runs', type=int, default=None)
    ap.add_argument('--workers', type=int, default=None)
    ap.add_argument('--replay')
    ap.add_argument('--digests')
    ap.add_argument('--no-selftest', action='store_true')
    ap.add_argument('--no-evidence', action='store_true')
    args = ap.parse_args()

    prop = args.prop.upper()
    modname = prop.lower()
    try:
        core.ensure_repo()
        mod = core.load_prop(modname)
        if args.replay:
            return do_replay(mod, args.replay)
        root = args.seed
        if root is None:
            env_seed = os.environ.get('VERIF_SEED')
            root = int(env_seed) if env_seed not in (None, '') else DEFAULT_SEED[args.tier]
        if args.digests:
            return do_digests(mod, args.tier, root, [int(x) for x in args.digests.split(',')])
        return do_check(mod, modname, args, root)
    except HarnessError as e:
        print(f'HARNESS-ERROR property={prop} {e}')
        return 2
    except Exception as e:   # noqa
        traceback.print_exc()
        print(f'HARNESS-ERROR property={prop} {type(e).__name__}: {e}')
        return 2


def gen_and_run(mod, tier, root, i):
    seed = core.derive(root, mod.PROP, i)
    case = mod.gen_case(random.Random(seed), tier)
    case['_seed'] = seed
    return case, core.run_one(mod, case)


def do_digests(mod, tier, root, idxs):
    setup = getattr(mod, 'setup_worker', None)
    if setup:
        setup()
    out = {}
    for i in idxs:
        case, res = gen_and_run(mod, tier, root, i)
        out[str(i)] = res['digest']
    print('DIGESTS ' + json.dumps(out, sort_keys=True))
    return 0


def do_replay(mod, path):
    with open(path) as f:
        doc = json.load(f)
    setup = getattr(mod, 'setup_worker', None)
    if setup:
        setup()
    case = doc['case']
    if doc.get('hang'):
        verdict = core.run_isolated(mod, case, timeout_s=60.0)
        print(f'replay: property={doc["property"]} recorded_class={doc["class"]} isolated run -> {verdict[0]} {verdict[1] or ""}')
        if verdict[0] == 'no-answer':
            print('REPRODUCED (the run never returns; its process was killed after 60 s)')
            print(f'VIOLATION property={doc["property"]} replay={path}')
            return 1
        if verdict[0] == 'done' and verdict[1]:
            print(f'VIOLATION property={doc["property"]} replay={path}')
            return 1
        print('NOT-REPRODUCED (the recorded run returns on this tree)')
        return 0
    res = core.run_one(mod, case)
    classes = [v['cls'] for v in res['viol']]
    print(f'replay: property={doc["property"]} recorded_class={doc["class"]} observed_classes={classes} '
          f'digest={res["digest"]} recorded_digest={doc.get("digest")}')
    for v in res['viol']:
        print(f'  {v["cls"]}: {v["msg"]}')
    if doc['class'] in classes:
        same = (res['digest'] == doc.get('digest'))
        print(f'REPRODUCED same_digest={same}')
        print(f'VIOLATION property={doc["property"]} replay={path}')
        return 1
    if classes:
        print('replay shows a different violation class')
        print(f'VIOLATION property={doc["property"]} replay={path}')
        return 1
    print('NOT-REPRODUCED (the recorded violation no longer occurs on this tree)')
    return 0


def determinism_selftest(mod, tier, root, agg, n=6):
    """(1) a sample of the seeded runs the workers executed is re-executed in this process
    (after hundreds of others ran there): digests must match; (2) the same sample is run in
    a fresh interpreter under another PYTHONHASHSEED."""
    sample = sorted(k for k in agg.digests if k[0] == 's')
    if not sample:
        return {'checked': 0, 'ok': True, 'note': 'no seeded runs sampled'}
    step = max(1, len(sample) // n)
    chosen = sample[::step][:n]
    setup = getattr(mod, 'setup_worker', None)
    if setup:
        setup()
    mismatches = []
    for k in chosen:
        i = k[1]
        _, res = gen_and_run(mod, tier, root, i)
        if res['digest'] != agg.digests[k]:
            mismatches.append(('in-process', i, agg.digests[k], res['digest']))
    fresh = None
    env = dict(os.environ)
    env['VERIF_HASHSEED'] = '4242'
    env.pop('PYTHONHASHSEED', None)
    try:
        out = subprocess.run(
            [sys.executable, os.path.join(HERE, 'simcheck.py'), mod.PROP, '--tier', tier, '--seed', str(root),
             '--digests', ','.join(str(k[1]) for k in chosen)],
            env=env, capture_output=True, text=True, timeout=300)
        line = [ln for ln in out.stdout.splitlines() if ln.startswith('DIGESTS ')]
        if not line:
            raise HarnessError(f'fresh-interpreter digest run failed: {out.stdout[-500:]} {out.stderr[-1500:]}')
        fresh = json.loads(line[0][8:])
        for k in chosen:
            if fresh[str(k[1])] != agg.digests[k]:
                mismatches.append(('fresh-interpreter', k[1], agg.digests[k], fresh[str(k[1])]))
    except subprocess.TimeoutExpired:
        raise HarnessError('fresh-interpreter digest run timed out')
    if mismatches:
        raise HarnessError(f'determinism self-test failed: {mismatches[:4]}')
    return {'checked': len(chosen), 'ok': True,
            'modes': ['forked worker vs. parent process', 'fresh interpreter, PYTHONHASHSEED=4242']}


def regenerate(mod, tier, root, key):
    try:
        if key[0] == 's':
            seed = core.derive(root, mod.PROP, key[1])
            c = mod.gen_case(random.Random(seed), tier)
            c['_seed'] = seed
            return c
        if key[0] == 'u':
            units = mod.sweep_units(tier, root)
            for j, c in enumerate(mod.expand_unit(units[key[1]])):
                if j == key[2]:
                    return c
    except Exception:   # noqa
        return None
    return None


def mark_hang(path):
    mark(path, 'hang', True)


def mark(path, key, value):
    with open(path) as f:
        doc = json.load(f)
    doc[key] = value
    with open(path, 'w') as f:
        json.dump(doc, f, indent=1, default=core._json_default, sort_keys=True)


def history_before(mod, tier, root, order_key, case):
    """The cases a worker executed before `case` within the same task (seeded batch or sweep unit)."""
    try:
        if order_key[0] == 's':
            i = order_key[1]
            batch = getattr(mod, 'BATCH', 200)
            i0 = (i // batch) * batch
            hist = []
            for j in range(i0, i + 1):
                seed = core.derive(root, mod.PROP, j)
                c = mod.gen_case(random.Random(seed), tier)
                c['_seed'] = seed
                hist.append(c)
            return hist
        if order_key[0] == 'u':
            units = mod.sweep_units(tier, root)
            hist = []
            for j, c in enumerate(mod.expand_unit(units[order_key[1]])):
                hist.append(c)
                if j == order_key[2]:
                    return hist
    except Exception:   # noqa
        return None
    return None


def do_check(mod, modname, args, root):
    tier = args.tier
    cfg = dict(mod.TIERS[tier])
    if args.budget is not None:
        cfg['budget'] = args.budget
    if args.runs is not None:
        cfg['runs'] = args.runs
    t0 = time.time()
    # forked now, while this process has not run anything yet: stands in for "a fresh process" when a violation shows
    # only the first time a process meets its input (see the end of this function)
    from sim import pristine
    pristine.start('replay')
    units = mod.sweep_units(tier, root) if hasattr(mod, 'sweep_units') else []
    agg = core.run_batch(modname, tier, root, n_runs=cfg['runs'], budget_s=cfg['budget'],
                         workers=args.workers, units=units)
    stuck_reported = []
    if getattr(agg, 'stuck', None):
        # runs that kept a worker busy until the batch's hard timeout: each is confirmed in a process of its own
        suspects = sorted(set(agg.stuck))
        if len(suspects) > 3:
            print(f'{len(suspects)} workers were sitting in runs that did not return: {suspects}; the first 3 are confirmed in isolation')
        for key in suspects[:3]:
            case = regenerate(mod, tier, root, key)
            if case is None:
                continue
            verdict = core.run_isolated(mod, case, timeout_s=60.0)
            if verdict[0] == 'no-answer':
                cls = f'{mod.PROP}:no-answer-process-killed'
                doc_case = dict(case)
                path = core.write_replay(mod.PROP, cls, doc_case,
                                         {'msg': 'the run never returned: the process serving it had to be killed after 60 s '
                                                 '(an endless loop or runaway computation that cannot be interrupted from inside)',
                                          'detail': {'order_key': list(key)}}, 'no-answer', original_case=case)
                mark_hang(path)
                print(f'violation class={cls}: run {key} never returned, its process had to be killed')
                print(f'VIOLATION property={mod.PROP} replay={path}')
                stuck_reported.append({'class': cls, 'replay': path, 'message': 'never returned', 'shrink_steps': 0})
        if not stuck_reported:
            print(f'HARNESS-ERROR property={mod.PROP} no worker finished within the hard timeout and none of the suspect runs '
                  f'{sorted(set(agg.stuck))[:4]} reproduces as a run that never returns')
            return 2
    if agg.errors:
        for e in agg.errors[:3]:
            print('HARNESS-ERROR', e[:3000])
        print(f'HARNESS-ERROR property={mod.PROP} {len(agg.errors)} harness errors')
        return 2
    selftest = None
    if not args.no_selftest:
        selftest = determinism_selftest(mod, tier, root, agg)

    # ---- violations: minimise, confirm by replay, classify against known findings --------
    known = core.load_known()
    setup = getattr(mod, 'setup_worker', None)
    if setup:
        setup()
    by_cls = {}
    alternatives = {}
    for order_key, cls, case, v in sorted(agg.viol, key=lambda x: (x[1], x[0])):
        if cls in by_cls:
            if len(alternatives.setdefault(cls, [])) < 5:
                alternatives[cls].append((order_key, case, v))
        else:
            by_cls[cls] = (order_key, case, v)
    exit_code = 1 if stuck_reported else 0
    reported = list(stuck_reported)
    known_matched = []
    t_min_budget = max(10.0, min(60.0, cfg['budget'] * 0.5)) / max(1, len(by_cls))
    unreproducible = []
    fresh_ready = [False]
    def attempt(case_, cls_):
        """minimise, then confirm once more from the minimised (explicit) trace -> (min case, res, viol, steps, confirming res)"""
        g = shrink.minimise(mod, case_, cls_, budget_s=t_min_budget)
        if g is None:
            return None
        a = shrink.still_fails(mod, g[0], cls_)
        if a is None:
            return None
        return g + (a[0],)

    for cls, (order_key, case, v) in sorted(by_cls.items()):
        got = attempt(case, cls)
        if got is None:
            # not reproducible on its own: does it reproduce after the runs that preceded it in its batch?
            # (then the system under test carries state from one request/parse to the next in a process-wide object)
            hist = history_before(mod, tier, root, order_key, case)
            if hist is not None:
                got = attempt({'_prior_runs': hist}, cls)
        if got is None:
            # another instance of the same class may be self-contained
            for ok2, case2, v2 in alternatives.get(cls, []):
                got = attempt(case2, cls)
                if got is not None:
                    order_key, case, v = ok2, case2, v2
                    break
        fresh = False
        if got is None:
            # does it show only the first time a process meets this input (a cache inside the system under test that
            # the first run fills)?  Then this process, which has meanwhile run the case, cannot show it again: every
            # candidate is evaluated in a process of its own, forked from a zygote that was forked before anything ran
            # and has only executed the module's setup_worker - exactly what `--replay` does in a fresh interpreter
            if not fresh_ready[0]:
                st, msg = pristine.prepare('replay', 'sim.shrink', '_child_setup', modname)
                if st != 'ok':
                    raise HarnessError(f'preparing the replay zygote failed: {msg}')
                fresh_ready[0] = True
            shrink.FRESH['on'] = True
            try:
                for ok2, case2, v2 in [(order_key, case, v)] + alternatives.get(cls, []):
                    got = attempt(case2, cls)
                    if got is not None:
                        order_key, case, v = ok2, case2, v2
                        fresh = True
                        break
            finally:
                shrink.FRESH['on'] = False
        if got is None:
            unreproducible.append((cls, order_key))
            continue
        mcase, res, viol, steps, confirm = got
        k = core.match_known(mod.PROP, cls, known)
        path = core.write_replay(mod.PROP, cls, mcase, viol, confirm['digest'], original_case=case,
                                 subdir='known' if k else None)
        if fresh:
            mark(path, 'fresh_process', 'shows only the first time a process serves this input; reproduced and minimised '
                                        'with every run in a process of its own, as --replay does')
        if k:
            print(f'KNOWN-FINDING: property={mod.PROP} {k.get("what", cls)} [class={cls}] replay={path}')
            known_matched.append({'class': cls, 'replay': path})
        else:
            print(f'violation class={cls}: {viol["msg"]}')
            print(f'VIOLATION property={mod.PROP} replay={path}')
            reported.append({'class': cls, 'replay': path, 'message': viol['msg'], 'shrink_steps': steps})
            exit_code = 1

    if unreproducible:
        if not reported and not known_matched:
            raise HarnessError(f'violations {unreproducible[:3]} found by workers do not reproduce in the parent, neither '
                               f'alone nor after the runs preceding them in their batch: harness determinism bug')
        # other classes of the same batch did reproduce and are reported with replay files; these ones were seen only
        # in worker processes that had served other runs before (state carried over inside the system under test)
        for cls, ok in unreproducible:
            print(f'note: class {cls} (run {ok}) was observed by a worker but did not reproduce from its trace alone')
    wall = time.time() - t0
    if not args.no_evidence:
        write_evidence(mod, tier, root, agg, wall, selftest, reported, known_matched, cfg)
    print(f'{mod.PROP} tier={tier} seed={root} runs={agg.evaluations} nontrivial={agg.nontrivial} '
          f'distinct_nontrivial={len(agg.distinct)} units={agg.units} wall={wall:.1f}s '
          f'violations={len(reported)} known={len(known_matched)}')
    return exit_code


def write_evidence(mod, tier, root, agg, wall, selftest, reported, known_matched, cfg):
    samples = [s[1] for s in sorted(agg.samples, key=lambda s: s[0])[:4]]
    if not samples:
        samples = ['(no non-trivial run)']
    fired = dict(sorted(agg.fired.items()))
    probes = dict(sorted(agg.probes.items()))
    runs_per_hour = int(agg.evaluations / max(agg.wall, 1e-6) * 3600)
    cov = {
        'evaluations': agg.evaluations,
        'distinct_nontrivial': len(agg.distinct),
        'rule': mod.RULE + (' (distinct counting capped at %d keys: lower bound)' % core.DISTINCT_CAP
                            if agg.distinct_capped else ''),
        'samples': samples,
        'nontrivial_runs': agg.nontrivial,
        'sweep_units': agg.units,
        'sweep_units_defined': getattr(agg, 'units_total', agg.units),
        'seeded_runs_submitted': agg.submitted_runs,
        'runs_per_hour': runs_per_hour,
        'seeds': {'root': root, 'derivation': 'run i uses splitmix64(root, property, i); sweep units are enumerated deterministically from the root'},
        'simulated_time': f'n/a: no timers or clocks in this property; logical steps (stream reads / scheduler steps / operations) = {agg.steps}',
        'logical_steps': agg.steps,
        'fault_kinds_fired': fired,
        'reach_probes': probes,
        'components': getattr(mod, 'COMPONENTS', {}),
        'determinism_selftest': selftest,
        'known_findings_matched': known_matched,
        'violations_reported': reported,
        'tier_config': cfg,
    }
    if agg.states:
        cov['states_distinct'] = len(agg.states)
        cov['states_measure'] = getattr(mod, 'STATE_MEASURE', '')
    extra = getattr(mod, 'evidence_extra', None)
    if extra:
        cov.update(extra(agg))
    doc = {
        'property_id': mod.PROP,
        'tier': tier,
        'seed': root,
        'level': mod.LEVEL,
        'coverage': cov,
        'assumptions': list(getattr(mod, 'ASSUMPTIONS', [])),
        'wall_s': round(wall, 2),
        'violations': len(reported),
    }
    core.write_evidence(mod.PROP, doc)


if __name__ == '__main__':
    sys.exit(main())
