#!/venv/bin/python
"""Sensitivity self-test: every mutant / seeded change is applied to a scratch
copy of /repo (outside /repo and /verif, removed afterwards), the repository's
own tests must still pass on it, and the property's check must report a
violation within its budget.

  sensitivity.py [--only SUBSTR] [--budget S] [--dir selftest/mutants | seeded]

Mutant files: <prop>_<name>.patch in selftest/mutants (prop = c08 ...), or
seeded/<id>/patch.diff with meta.json {"property": "Cxx"}.
Never touches /repo; the checks are pointed at the copy through OMBOTT_REPO.
Prints one line per mutant and a JSON summary; exit 0 iff every mutant is caught.
"""
import argparse
import json
import os
import shutil
import subprocess
import sys
import tempfile
import time

HERE = os.path.dirname(os.path.abspath(__file__))
VERIF = os.path.dirname(HERE)
PY = '/venv/bin/python'


def collect(args):
    out = []
    mdir = os.path.join(HERE, 'mutants')
    if args.dir in ('all', 'mutants') and os.path.isdir(mdir):
        for f in sorted(os.listdir(mdir)):
            if f.endswith('.patch'):
                out.append((f[:-6], f.split('_', 1)[0].upper(), os.path.join(mdir, f)))
    sdir = os.path.join(VERIF, 'seeded')
    if args.dir in ('all', 'seeded') and os.path.isdir(sdir):
        for d in sorted(os.listdir(sdir)):
            p = os.path.join(sdir, d, 'patch.diff')
            mp = os.path.join(sdir, d, 'meta.json')
            if os.path.exists(p) and os.path.exists(mp):
                meta = json.load(open(mp))
                # 'check': the property whose check is expected to catch the change when that is not the property the
                # change was written against (e.g. a change that is unobservable sequentially but breaks isolation)
                out.append(('seeded/' + d, meta.get('check', meta['property']), p))
    if args.only:
        out = [x for x in out if any(s in x[0] for s in args.only.split(','))]
    return out


def run_one(name, prop, patch, budget, run_tests=True):
    scratch = tempfile.mkdtemp(prefix='ombott_mut_', dir='/tmp')
    repo = os.path.join(scratch, 'repo')
    try:
        subprocess.run(['git', 'clone', '-q', '--no-hardlinks', '/repo', repo], check=True, capture_output=True)
        # bring the clone to /repo's working tree state (HEAD is enough: /repo is kept clean)
        ap = subprocess.run(['git', '-C', repo, 'apply', patch], capture_output=True, text=True)
        if ap.returncode != 0:
            return {'name': name, 'property': prop, 'result': 'patch-does-not-apply', 'detail': ap.stderr[-300:]}
        tests_ok = None
        if run_tests:
            t = subprocess.run([PY, '-m', 'pytest', '-q', '-p', 'no:cacheprovider', '-x'], cwd=repo,
                               capture_output=True, text=True, timeout=600,
                               env=dict(os.environ, PYTHONPATH=repo, PYTHONDONTWRITEBYTECODE='1'))
            tests_ok = (t.returncode == 0)
            tail = t.stdout.strip().splitlines()[-1:] if t.stdout else []
        t0 = time.time()
        env = dict(os.environ, OMBOTT_REPO=repo, PYTHONDONTWRITEBYTECODE='1', VERIF_REPLAY_DIR=os.path.join(scratch, 'replays'))
        c = subprocess.run([PY, os.path.join(VERIF, 'simcheck.py'), prop, '--tier', 'quick', '--no-evidence', '--no-selftest',
                            '--budget', str(budget)], capture_output=True, text=True, timeout=3600, env=env)
        wall = time.time() - t0
        viol = [ln for ln in c.stdout.splitlines() if ln.startswith('violation class=')]
        classes = sorted({ln.split('class=')[1].split(':', 3)[1] if False else ln.split('class=')[1].split(': ')[0] for ln in viol})
        result = {0: 'MISSED', 1: 'caught', 2: 'harness-error'}.get(c.returncode, f'exit-{c.returncode}')
        if c.returncode == 2:
            detail = [ln for ln in c.stdout.splitlines() if 'HARNESS' in ln][:2]
        else:
            detail = [v[:240] for v in viol[:2]]
        return {'name': name, 'property': prop, 'result': result, 'tests_pass_with_mutant': tests_ok,
                'classes': classes, 'wall_s': round(wall, 1), 'detail': detail}
    finally:
        shutil.rmtree(scratch, ignore_errors=True)


def main():
    ap = argparse.ArgumentParser()
    ap.add_argument('--only')
    ap.add_argument('--budget', type=float, default=25)
    ap.add_argument('--dir', default='all', choices=['all', 'mutants', 'seeded'])
    ap.add_argument('--no-tests', action='store_true')
    ap.add_argument('--out')
    args = ap.parse_args()
    rows = []
    for name, prop, patch in collect(args):
        r = run_one(name, prop, patch, args.budget, run_tests=not args.no_tests)
        rows.append(r)
        print(f"{r['result']:>14}  {prop}  {name}  tests_pass={r.get('tests_pass_with_mutant')}  "
              f"{r.get('wall_s', '')}s  {r.get('classes', '')}", flush=True)
    missed = [r for r in rows if r['result'] != 'caught']
    summary = {'mutants': len(rows), 'caught': len(rows) - len(missed), 'not_caught': [r['name'] for r in missed], 'rows': rows}
    if args.out:
        with open(args.out, 'w') as f:
            json.dump(summary, f, indent=1)
    print(json.dumps({k: summary[k] for k in ('mutants', 'caught', 'not_caught')}))
    return 0 if not missed else 1


if __name__ == '__main__':
    sys.exit(main())
