#!/venv/bin/python
"""Large-sample determinism self-test.

For every claimed property, N seeded runs are executed four times, each time in
fresh interpreters spread over several processes:
  A  PYTHONHASHSEED=0,    indices ascending,  chunks of c1
  B  PYTHONHASHSEED=4242, indices descending, chunks of c2   (another hash seed, another order,
                                                               another split over processes)
  C  PYTHONHASHSEED=7,    indices shuffled,   one chunk per process count/3
  D  as A but with 3 processes instead of 16
and the per-run event-log digests must be identical in all four.  (The quick checks
additionally compare forked-worker digests with the parent and a fresh interpreter
on every invocation.)

  determinism.py [--n 192] [--props C03,C04,...] [--tier quick]
exit 0 iff no mismatch.
"""
import argparse
import json
import os
import random
import subprocess
import sys
from concurrent.futures import ThreadPoolExecutor

HERE = os.path.dirname(os.path.abspath(__file__))
VERIF = os.path.dirname(HERE)
PY = '/venv/bin/python'
ALL = ['C03', 'C04', 'C05', 'C06', 'C07', 'C08', 'C09', 'C10', 'C11', 'C12', 'C13']


def digests(prop, tier, seed, idxs, hashseed):
    env = dict(os.environ, VERIF_HASHSEED=str(hashseed), PYTHONDONTWRITEBYTECODE='1')
    env.pop('PYTHONHASHSEED', None)
    out = subprocess.run([PY, os.path.join(VERIF, 'simcheck.py'), prop, '--tier', tier, '--seed', str(seed),
                          '--digests', ','.join(map(str, idxs))], env=env, capture_output=True, text=True, timeout=1800)
    for ln in out.stdout.splitlines():
        if ln.startswith('DIGESTS '):
            return json.loads(ln[8:])
    raise RuntimeError(f'{prop}: digest run failed: {out.stdout[-400:]} {out.stderr[-800:]}')


def spread(prop, tier, seed, idxs, hashseed, nproc):
    chunks = [idxs[i::nproc] for i in range(nproc)]
    chunks = [c for c in chunks if c]
    res = {}
    with ThreadPoolExecutor(max_workers=nproc) as ex:
        for d in ex.map(lambda c: digests(prop, tier, seed, c, hashseed), chunks):
            res.update(d)
    return res


def main():
    ap = argparse.ArgumentParser()
    ap.add_argument('--n', type=int, default=192)
    ap.add_argument('--props', default=','.join(ALL))
    ap.add_argument('--tier', default='quick')
    ap.add_argument('--seed', type=int, default=20260928)
    ap.add_argument('--out')
    args = ap.parse_args()
    bad = {}
    summary = {}
    for prop in args.props.split(','):
        rng = random.Random(hash_str(prop))
        idxs = sorted(rng.sample(range(0, 50000), args.n))
        a = spread(prop, args.tier, args.seed, idxs, 0, 16)
        b = spread(prop, args.tier, args.seed, idxs[::-1], 4242, 11)
        sh = idxs[:]
        rng.shuffle(sh)
        c = spread(prop, args.tier, args.seed, sh, 7, 5)
        d = spread(prop, args.tier, args.seed, idxs, 0, 3)
        mism = [i for i in idxs if not (a[str(i)] == b[str(i)] == c[str(i)] == d[str(i)])]
        summary[prop] = {'runs': len(idxs), 'executions': 4 * len(idxs), 'mismatches': len(mism)}
        print(f'{prop}: {len(idxs)} seeds x 4 configurations, mismatches={len(mism)} {mism[:5]}', flush=True)
        if mism:
            bad[prop] = mism
            for i in mism[:5]:
                print('   ', i, 'A', a[str(i)], 'B', b[str(i)], 'C', c[str(i)], 'D', d[str(i)])
                for nm, order, npr in (('A', idxs, 16), ('B', idxs[::-1], 11), ('C', sh, 5), ('D', idxs, 3)):
                    chunk = order[order.index(i) % npr::npr]
                    print('      ', nm, 'ran in chunk', chunk[:chunk.index(i) + 1][-6:])
    if args.out:
        with open(args.out, 'w') as f:
            json.dump(summary, f, indent=1)
    print(json.dumps({'ok': not bad, 'bad': bad}))
    return 0 if not bad else 1


def hash_str(s):
    h = 0
    for ch in s:
        h = (h * 131 + ord(ch)) & 0xffffffff
    return h


if __name__ == '__main__':
    sys.exit(main())
