"""Concurrent twin runs: the schedule dimension for the single-request properties.

A property module whose run_case serves ONE request (C04, C05, C07, C12, C13
through sim.bodyreq, C03 through its own driver) can have a share of its seeded
cases executed as a *twin*: the very same case is served by two (or three) real
threads at once through one shared application, each thread with its own
simulated stream, its own handler closure and its own oracle, under the
deterministic scheduler (sim.sched) - which thread runs is decided at every
traced line of /repo/ombott.  Every thread's request is an ordinary request of
its own, so the module's oracle applies to each thread unchanged: concurrency
must not change the outcome (this is where a scratch buffer, a cached bound
method or a budget shared between requests shows).

    case = {'twin': <inner case>, 'n': 2, 'plan': <sched plan>}

The executed switch list is recorded; replay and shrinking use the explicit plan.
"""
import os

from .core import new_result, Log, digest, HarnessError, REPO
from .sched import Sched, gen_plan, simpler_plans
from . import bodyreq

PREFIXES = (REPO.rstrip('/') + '/ombott/',)


def cfg_sig(c):
    """What decides the configuration of the shared application of a bodyreq-based twin run."""
    return (c.get('B'), c.get('M'), c.get('errors_map'))


def maybe_wrap(rng, case, share, est_steps=900, ok=None, gen_other=None, sig=cfg_sig):
    """With probability `share`, turn a freshly generated case into a twin case (`ok(case)` can exclude
    cases whose traced length would be out of proportion, e.g. a 60 kB body read byte-wise).  With `gen_other`
    (rng -> another freshly generated case) half of the twin runs are heterogeneous: the further threads serve
    other seeded cases that need the same application configuration (`sig`), found by rejection sampling -
    identical requests cannot show interference that overwrites a value with the very same value."""
    if ok is not None and not ok(case):
        return case
    if os.environ.get('VERIF_TWIN_SHARE'):
        share = float(os.environ['VERIF_TWIN_SHARE'])      # self-tests force all (1.0) or no (0.0) twins
    if rng.random() >= share:
        return case
    n = 2 if rng.random() < 0.8 else 3
    # a fifth of the twin runs is pre-empted between bytecode instructions instead of between lines
    gran = 'instr' if rng.random() < 0.2 else 'line'
    out = {'twin': case, 'n': n, 'gran': gran, 'plan': gen_plan(rng, est_steps * n * (9 if gran == 'instr' else 1), n)}
    if gen_other is not None and rng.random() < 0.5:
        want = sig(case)
        others = []
        for _ in range(n - 1):
            found = None
            for _attempt in range(25):
                c = gen_other(rng)
                if 'twin' not in c and (ok is None or ok(c)) and sig(c) == want:
                    found = c
                    break
            others.append(found)
        if any(o is not None for o in others):
            out['others'] = others
    return out


def run(inner_run, case, *, shared_bodyreq=True, before=None, after=None, step_cap=6_000_000, cap_violation=None):
    """cap_violation: violation class to report when the run exceeds step_cap (a request that never
    returns); None = exceeding the cap is a harness error (no legitimate run of the module comes near it)."""
    inner = case['twin']
    n = case.get('n', 2)
    others = case.get('others') or []
    inners = [inner] + [(others[i] if i < len(others) and others[i] is not None else inner) for i in range(n - 1)]
    results = [None] * n
    gran = case.get('gran', 'line')
    if gran == 'instr':
        step_cap *= 10
    s = Sched(n, case['plan'], prefixes=PREFIXES, max_steps=step_cap, granularity=gran)
    inflight = set()
    overlap = [0]

    def on_switch(frm, to):
        if frm in inflight:      # pre-empted in the middle of its request
            overlap[0] += 1
    s.on_switch = on_switch

    def make(i):
        def fn():
            inflight.add(i)
            try:
                results[i] = inner_run(inners[i], i)
            finally:
                inflight.discard(i)
        return fn
    if shared_bodyreq:
        bodyreq.SHARED.update(on=True, app=None, cfg=None, n=0)
    ctx = before() if before else None
    try:
        s.run([make(i) for i in range(n)], timeout=120.0)
    finally:
        if shared_bodyreq:
            bodyreq.SHARED.update(on=False, app=None, cfg=None, n=0)
        if after:
            after(ctx)
    if s.capped:
        if cap_violation is None:
            raise HarnessError(f'twin run exceeded its step cap of {step_cap} traced steps')
        res = new_result()
        res['viol'].append({'cls': cap_violation + '@twin',
                            'msg': f'{n} concurrent identical requests were not all answered within {step_cap} traced '
                                   f'steps (an ordinary run takes a few thousand): endless loop', 'detail': {}})
        res['nontrivial'] = True
        res['fired']['step_cap'] += 1
        res['steps'] = s.step
        res['digest'] = digest(['step-cap', step_cap])
        exp = dict(case)
        exp['plan'] = s.explicit_plan()
        res['explicit'] = exp
        return res
    for i in range(n):
        if s.errors[i] is not None:
            e = s.errors[i]
            if isinstance(e, HarnessError):
                raise e
            raise HarnessError(f'twin thread {i}: harness code raised {type(e).__name__}: {e}')
    res = new_result()
    log = Log(inner.get('_seed'))
    log('twin', n, 'executed', s.executed)
    seen = set()
    for i, r in enumerate(results):
        log('thread', i, r['digest'])
        for v in r['viol']:
            cls = v['cls'] + '@twin'
            if cls not in seen:
                seen.add(cls)
                res['viol'].append({'cls': cls, 'msg': f'[thread {i} of {n} concurrent {"" if others else "identical "}requests] ' + v['msg'],
                                    'detail': v.get('detail', {})})
        res['fired'].update(r['fired'])
        res['probes'].update(r['probes'])
        res['steps'] += r['steps']
    res['fired']['twin:preempted_mid_request'] += overlap[0]
    res['probes']['twin_runs'] += 1
    res['probes']['twin_plan:' + case['plan']['mode']] += 1
    res['probes']['twin_gran:' + gran] += 1
    res['probes']['twin_kind:' + ('heterogeneous' if others else 'identical')] += 1
    res['steps'] += s.step
    res['states'] = {a + ' | ' + b for a, b in s.switch_locs}
    res['nontrivial'] = overlap[0] > 0
    res['key'] = digest([inners, n, s.executed])
    res['digest'] = log.digest()
    exp = dict(case)
    exp['plan'] = s.explicit_plan()
    res['explicit'] = exp
    return res


def shrink_candidates(case, inner_candidates):
    if case.get('gran', 'line') != 'line':
        c = dict(case)
        c['gran'] = 'line'
        yield c
    if case.get('others'):
        c = dict(case)
        c.pop('others')
        yield c
    for p in simpler_plans(case['plan']):
        c = dict(case)
        c['plan'] = p
        yield c
    if case.get('n', 2) > 2:
        c = dict(case)
        c['n'] = 2
        c['plan'] = {'mode': 'explicit', 'first': 0,
                     'switches': [[st, t] for st, t in case['plan'].get('switches', []) if t < 2]}
        yield c
    for ic in inner_candidates(case['twin']):
        c = dict(case)
        c['twin'] = ic
        yield c
    for j, o in enumerate(case.get('others') or []):
        if o is None:
            continue
        for ic in inner_candidates(o):
            if cfg_sig(ic) != cfg_sig(o):
                continue
            c = dict(case)
            c['others'] = list(case['others'])
            c['others'][j] = ic
            yield c


def warm(gen_inner, run_inner, n=60):
    """Warm regime for twin-enabled modules (their setup_worker): lazily initialised process-wide state of
    ombott (error page template, filter cache, ...) must be in its steady state before the first scheduled run,
    or the number of traced steps - hence the meaning of a recorded switch list - would depend on what the
    process happened to run before.  Runs a fixed set of the module's own cases unscheduled, plus one request
    of each framework-generated error kind."""
    import random
    import io
    import ombott
    from .wsgi import make_environ, call_app
    rng = random.Random(987654321)
    import signal
    import threading
    from . import core
    guard = threading.current_thread() is threading.main_thread()
    for _ in range(n):
        c = gen_inner(rng, 'quick')
        if guard:
            old = signal.signal(signal.SIGVTALRM, core._on_alarm)
            signal.setitimer(signal.ITIMER_VIRTUAL, 3.0)
        try:
            run_inner(c)
        except core.RunTimeout:
            pass        # a warm-up request that never returns: the seeded runs will meet and report it
        finally:
            if guard:
                signal.setitimer(signal.ITIMER_VIRTUAL, 0)
                signal.signal(signal.SIGVTALRM, old)
    app = ombott.Ombott({'max_body_size': 10})
    app.route('/w/<k:int>', method=['GET', 'POST'], callback=lambda k: app.request.body.read() and 'x')
    for env in (make_environ('GET', '/nope'), make_environ('PUT', '/w/1'),
                make_environ('GET', '/nope', headers={'Accept': 'application/json'}),
                make_environ('POST', '/w/1', stream=io.BytesIO(b'x' * 50), content_length=50),
                make_environ('POST', '/w/1', stream=io.BytesIO(b'zz\r\n'), chunked=True),
                make_environ('GET', '/w/\xff')):
        call_app(app, env)


def solo_steps(inner_run, inner, **kw):
    """Number of traced steps of the case served by one scheduled thread alone."""
    r = run(inner_run, {'twin': inner, 'n': 1, 'plan': {'mode': 'explicit', 'first': 0, 'switches': []}}, **kw)
    return r['steps'] - sum(0 for _ in ())  # steps of the inner oracle are included; used only as an upper bound


def sweep(inner_run, inner, *, max_steps=1500, **kw):
    """Exhaustive single pre-emption: thread 0 is pre-empted exactly once, at every traced step s of its solo
    run, thread 1 serves the same request completely, thread 0 resumes."""
    n = solo_steps(inner_run, inner, **kw)
    if n > max_steps:
        return
    for st in range(1, n + 1):
        yield {'twin': inner, 'n': 2, 'plan': {'mode': 'explicit', 'first': 0, 'switches': [[st, 1]]}}
