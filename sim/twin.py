"""Concurrent twin runs: the schedule dimension for the single-request properties.

A property module whose run_case serves ONE request (C04, C05, C07, C12, C13
through sim.bodyreq, C03 through its own driver) can have a share of its seeded
cases executed as a *twin*: the very same case is served by two (or three) real
threads at once through one shared application, each thread with its own
simulated stream, its own handler closure and its own oracle, under the
deterministic scheduler (sim.sched) - which thread runs is decided at every
traced line of /repo/ombott.  Every thread's request is an ordinary request of
its own, so the module's oracle applies to each thread unchanged: concurrency
must not change the outcome (this is where a scratch buffer, a cached bound
method or a budget shared between requests shows).

    case = {'twin': <inner case>, 'n': 2, 'plan': <sched plan>}

The executed switch list is recorded; replay and shrinking use the explicit plan.
"""
from .core import new_result, Log, digest, HarnessError, REPO
from .sched import Sched, gen_plan, simpler_plans
from . import bodyreq

PREFIXES = (REPO.rstrip('/') + '/ombott/',)


def maybe_wrap(rng, case, share, est_steps=900):
    """With probability `share`, turn a freshly generated case into a twin case."""
    if rng.random() >= share:
        return case
    n = 2 if rng.random() < 0.8 else 3
    return {'twin': case, 'n': n, 'plan': gen_plan(rng, est_steps * n, n)}


def run(inner_run, case, *, shared_bodyreq=True, before=None, after=None):
    inner = case['twin']
    n = case.get('n', 2)
    results = [None] * n
    s = Sched(n, case['plan'], prefixes=PREFIXES, max_steps=2_000_000)
    inflight = set()
    overlap = [0]

    def on_switch(frm, to):
        if len(inflight) >= 2:
            overlap[0] += 1
    s.on_switch = on_switch

    def make(i):
        def fn():
            inflight.add(i)
            try:
                results[i] = inner_run(inner, i)
            finally:
                inflight.discard(i)
        return fn
    if shared_bodyreq:
        bodyreq.SHARED.update(on=True, app=None, cfg=None, n=0)
    ctx = before() if before else None
    try:
        s.run([make(i) for i in range(n)], timeout=120.0)
    finally:
        if shared_bodyreq:
            bodyreq.SHARED.update(on=False, app=None, cfg=None, n=0)
        if after:
            after(ctx)
    for i in range(n):
        if s.errors[i] is not None:
            e = s.errors[i]
            if isinstance(e, HarnessError):
                raise e
            raise HarnessError(f'twin thread {i}: harness code raised {type(e).__name__}: {e}')
    res = new_result()
    log = Log(inner.get('_seed'))
    log('twin', n, 'executed', s.executed)
    seen = set()
    for i, r in enumerate(results):
        log('thread', i, r['digest'])
        for v in r['viol']:
            cls = v['cls'] + '@twin'
            if cls not in seen:
                seen.add(cls)
                res['viol'].append({'cls': cls, 'msg': f'[thread {i} of {n} concurrent identical requests] ' + v['msg'],
                                    'detail': v.get('detail', {})})
        res['fired'].update(r['fired'])
        res['probes'].update(r['probes'])
        res['steps'] += r['steps']
    res['fired']['twin:switch_with_two_in_flight'] += overlap[0]
    res['probes']['twin_runs'] += 1
    res['probes']['twin_plan:' + case['plan']['mode']] += 1
    res['steps'] += s.step
    res['states'] = {a + ' | ' + b for a, b in s.switch_locs}
    res['nontrivial'] = overlap[0] > 0
    res['key'] = digest([inner, n, s.executed])
    res['digest'] = log.digest()
    exp = dict(case)
    exp['plan'] = s.explicit_plan()
    res['explicit'] = exp
    return res


def shrink_candidates(case, inner_candidates):
    for p in simpler_plans(case['plan']):
        c = dict(case)
        c['plan'] = p
        yield c
    if case.get('n', 2) > 2:
        c = dict(case)
        c['n'] = 2
        c['plan'] = {'mode': 'explicit', 'first': 0,
                     'switches': [[st, t] for st, t in case['plan'].get('switches', []) if t < 2]}
        yield c
    for ic in inner_candidates(case['twin']):
        c = dict(case)
        c['twin'] = ic
        yield c
