"""The application served in the scheduled (C08) runs.  This file is *traced*:
every statement below is a pre-emption point, like the framework's own code.

Handlers learn which request they belong to from the harness' per-thread slot
(`cur()`), never from the objects under test, and report every value they read
through `note()` so the oracle can compare it with the request's own markers."""
import threading

_TL = threading.local()


def cur():
    return _TL.spec


def note(name, value):
    _TL.notes.append((name, value))


def begin(spec):
    _TL.spec = spec
    _TL.notes = []


def notes():
    return _TL.notes


def read_all(app, tag):
    rq = app.request
    note(tag + ':path', rq.path)
    note(tag + ':method', rq.method)
    note(tag + ':query_m', rq.query.get('m'))
    note(tag + ':qs', rq.query_string)
    note(tag + ':hdr', rq.headers.get('X-M'))
    note(tag + ':cookie_c', rq.cookies.get('c'))
    note(tag + ':cookie_d', rq.get_cookie('d'))
    note(tag + ':url', rq.url)
    note(tag + ':env_m', rq.environ.get('sim.m'))
    note(tag + ':app', rq.app is app)
    note(tag + ':remote', (rq.remote_addr, list(rq.remote_route)))
    note(tag + ':auth', rq.auth)
    note(tag + ':xhr', rq.is_xhr)
    note(tag + ':ctype', (rq.content_type, rq.content_length))
    note(tag + ':paths', (rq.script_name, rq.fullpath))
    note(tag + ':json_wanted', bool(rq.is_json_requested))
    note(tag + ':signed', rq.get_cookie('s', secret='k3y'))
    note(tag + ':params_m', rq.params.get('m') if rq.method == 'GET' else None)
    # the request as a mapping over its environ, and attributes the application parks on it
    note(tag + ':item', (rq['sim.m'], rq.get('sim.m'), 'sim.m' in rq.keys(), 'sim.m' in list(rq)))
    note(tag + ':ext', getattr(rq, 'trace', None))


def write_some(app, m, status):
    rs = app.response
    rs.status = status
    rs.headers['X-R'] = 'r' + m
    rs.set_cookie('rc', 'k' + m, path='/p' + m)
    rs.set_cookie('sg', 'v' + m, secret='k3y')
    rs.headers.append('X-Multi', 'a' + m)
    rs.headers.append('X-Multi', 'b' + m)


def read_back(app, tag):
    rs = app.response
    note(tag + ':status', rs.status_code)
    note(tag + ':x_r', rs.headers.get('X-R'))
    note(tag + ':multi', list(rs.headers.get('X-Multi') or []))
    ck = rs._cookies
    note(tag + ':rc', ck['rc'].value if ck and 'rc' in ck else None)


def build(app):
    import ombott

    @app.on('before_request')
    def before():
        rq = app.request
        note('before:path', rq.path)
        note('before:ext', getattr(rq, 'trace', None))      # nothing parked on this request yet
        app.response.headers['X-Before'] = 'b' + (rq.query.get('m') or '?')
        if rq.query.get('hc') == '1':
            app.response.set_cookie('hk', 'h' + (rq.query.get('m') or '?'))
            raise ValueError('hookboom-' + (rq.query.get('m') or '?'))

    @app.on('after_request')
    def after():
        note('after:path', app.request.path)
        note('after:ext', getattr(app.request, 'trace', None))
        app.response.headers['X-After'] = 'a' + (app.request.query.get('m') or '?')

    @app.route('/echo/<m>', method=['GET', 'POST', 'PUT'])
    def echo(m):
        spec = cur()
        note('arg', m)
        read_all(app, 'r1')
        write_some(app, m, spec['status'])
        read_back(app, 'w1')
        rq = app.request
        rq.trace = 't' + m          # a user-defined request attribute (kept in the environ of this request)
        if rq.method != 'GET':
            note('body', rq.body.read())
            note('form_f', rq.forms.get('f'))
            note('params_m', rq.params.get('m'))
        read_all(app, 'r2')
        read_back(app, 'w2')
        return 'echo-' + m + '-' + (rq.query.get('m') or '')

    @app.route('/upload/<m>', method='POST')
    def upload(m):
        rq = app.request
        note('arg', m)
        read_all(app, 'r1')
        files = rq.files
        up = files.get('up')
        note('up_name', up.raw_filename if up is not None else None)
        note('up_data', up.file.read() if up is not None else None)
        if up is not None:
            # the part's own headers, as the upload object exposes them
            hv = {}
            for hk in sorted(up.headers.keys()):
                v = up.headers[hk]
                hv[hk] = getattr(v, 'value', v)
            note('up_headers', hv)
            ct = up.content_type
            note('up_ctype', getattr(ct, 'value', ct))
        note('form_t', rq.forms.get('t'))
        write_some(app, m, 201)
        read_back(app, 'w1')
        return b'upload-' + m.encode()

    @app.route('/raise/<m>')
    def raiser(m):
        spec = cur()
        note('arg', m)
        read_all(app, 'r1')
        app.response.set_cookie('pre', 'p' + m)
        if spec.get('resp'):
            r = ombott.HTTPResponse('resp-' + m, spec['status'], X_R='r' + m)
            r.set_cookie('rc', 'k' + m)
            raise r
        raise ombott.HTTPError(spec['status'], 'err-' + m, X_R='r' + m)

    @app.route('/teapot/<m>')
    def teapot(m):
        note('arg', m)
        read_all(app, 'r1')
        raise ombott.HTTPError(418, 'tea-' + m)

    @app.error(418)
    def on418(err):
        read_all(app, 'e1')
        app.response.headers['X-Tea'] = 't' + (app.request.query.get('m') or '?')
        return 'teapot:' + err.body + ':' + (app.request.query.get('m') or '?')

    @app.route('/crash/<m>')
    def crash(m):
        note('arg', m)
        read_all(app, 'r1')
        write_some(app, m, 202)
        raise ValueError('boom-' + m)

    @app.route('/gen/<m>')
    def gen(m):
        spec = cur()
        note('arg', m)
        write_some(app, m, spec['status'])

        def body():
            read_all(app, 'g1')
            yield 'g1-' + m
            read_all(app, 'g2')
            yield ('-g2-' + (app.request.query.get('m') or '?'))
            read_back(app, 'gw')
        return body()

    @app.route('/only-get/<m>')
    def only_get(m):
        note('arg', m)
        return 'only-get-' + m

    @app.route('/body/<m>', method='POST')
    def body(m):
        note('arg', m)
        read_all(app, 'r1')
        data = app.request.body.read()
        note('body', data)
        read_all(app, 'r2')
        write_some(app, m, 200)
        return data

    @app.route('/charset/<m>')
    def charset(m):
        # text in a charset chosen by the handler; the framework encodes it (per piece, for a generator)
        spec = cur()
        note('arg', m)
        app.response.content_type = 'text/plain; charset=' + spec['cs']
        note('charset', app.response.charset)
        if spec.get('as_gen'):
            def pieces():
                yield 'caf\xe9-'
                note('charset2', app.response.charset)
                yield m + '-\xfc\xdf'
            return pieces()
        return 'caf\xe9-' + m + '-\xfc\xdf'

    @app.route('/busy/<m>')
    def busy(m):
        # a non-standard status code given in string form with a request-specific reason phrase
        note('arg', m)
        read_all(app, 'r1')
        app.response.status = '529 Overloaded by ' + m
        return 'busy-' + m

    @app.route('/limit/<m>')
    def limit(m):
        # the same non-standard code used numerically
        note('arg', m)
        raise ombott.HTTPError(529, 'limit-' + m)

    @app.route('/fixed', method=['GET', 'POST'])
    def fixed():
        # every request of this kind has the same URL; the request-specific data is in headers, cookies and body only
        rq = app.request
        hm = rq.headers.get('X-M') or '?'
        note('fixed:hdr', hm)
        # the parsed containers belong to this request: what the handler adds to them must stay here
        note('fixed:cookies_on_entry', sorted(rq.cookies.items()))
        note('fixed:query_on_entry', sorted(rq.query.items()))
        rq.cookies['seen-by'] = hm
        rq.query['seen-by'] = hm
        rq.url_args['seen_by'] = hm         # (this handler takes no arguments)
        note('fixed:cookie', rq.cookies.get('c'))
        note('fixed:auth', rq.auth)
        if rq.method == 'POST':
            note('fixed:form', rq.forms.get('f'))
        app.response.headers['X-R'] = 'r' + hm
        app.response.set_cookie('rc', 'k' + hm)
        if rq.headers.get('X-Fail') == '1':
            raise ombott.HTTPError(409, 'conflict-' + hm)
        return 'fixed-' + hm

    @app.on_route('/panel')
    def panel_hook(prefix):
        # a route hook that hands a value on to the handler through the request's URL arguments
        app.request.url_args['user'] = app.request.headers.get('X-M') or '?'

    @app.route('/panel')
    def panel(user=None):
        note('panel:user', user)
        note('panel:url_args', dict(app.request.url_args))
        app.response.headers['X-User'] = str(user)
        return 'panel of ' + str(user)

    @app.route('/public')
    def public(**kw):
        note('public:kw', dict(kw))
        note('public:url_args', dict(app.request.url_args))
        note('public:ext', getattr(app.request, 'trace', None))
        # the URL arguments belong to this request: what the handler parks there must not reach a later one
        app.request.url_args['seen_by'] = app.request.headers.get('X-M') or '?'
        return 'public'

    @app.route('/session')
    def session():
        # a signed cookie with a mutable payload, updated in place and sent back
        rq = app.request
        who = rq.headers.get('X-M') or '?'
        sess = rq.get_cookie('sess', secret='k3y') or {'visits': 0, 'seen': []}
        sess['visits'] += 1
        sess['seen'].append(who)
        note('session', (sess['visits'], list(sess['seen'])))
        app.response.set_cookie('sess', sess, secret='k3y')
        return 'visits=%d seen=%s' % (sess['visits'], ','.join(sess['seen']))

    @app.route('/boom')
    def boom():
        # same URL for every request of this kind; what differs is a request header only
        raise ValueError('boom-' + (app.request.headers.get('X-M') or '?'))

    @app.route('/u/{name:rex(Z[0-9]+z)}/p/{n:int()}/{rest:path()}/end')
    def filtered(name, n, rest):
        # URL arguments produced by the route filters (regular expression, integer, path)
        note('filtered:args', (name, n, rest))
        note('filtered:url_args', sorted(app.request.url_args.items()))
        read_all(app, 'r1')
        return 'filtered-%s-%d-%s' % (name, n, rest)

    @app.route('/lazybody/<m>', method='POST')
    def lazybody(m):
        # the body is read only while the server iterates the response (after the handler returned)
        note('arg', m)

        def pieces():
            data = app.request.body.read()
            note('lazy_body', data)
            yield 'lazy-' + m + '-'
            yield data.decode('latin1')
        return pieces()

    @app.route('/dated/<m>')
    def dated(m):
        # cookies with request-specific expiry dates (formatted by the framework), one deleted cookie
        note('arg', m)
        stamp = 1000000000 + int(m[1:-1]) * 86400 + len(m)
        rs = app.response
        rs.set_cookie('lease', 'l' + m, expires=stamp)
        rs.set_cookie('short', 's' + m, max_age=60 + int(m[1:-1]))
        rs.delete_cookie('old' + m)
        rs.set_cookie('lease2', 'l2' + m, expires=stamp + 3600)
        return 'dated-' + m

    @app.route('/reqerr/<m>')
    def reqerr(m):
        # the handler itself raises one of the framework's request errors (as a body helper called directly would)
        from ombott.request_pkg import errors as rq_errors
        note('arg', m)
        read_all(app, 'r1')
        cls = rq_errors.BodyParsingError if len(m) % 2 else rq_errors.RequestError
        raise cls('own-' + m)

    @app.route('/json/<m>', method='POST')
    def json_in(m):
        note('arg', m)
        read_all(app, 'r1')
        data = app.request.json
        note('json', data)
        write_some(app, m, 200)
        return 'json-' + m

    return app
