"""E-wsgi: the simulated WSGI server.

Builds PEP 3333 environs, records every start_response call, iterates the
returned iterable the way a server does (optionally stopping early = client
disconnect), always calls close(), and validates what it saw with an
independent PEP 3333 validator.
"""
import io
import re

_STATUS_RE = re.compile(r'^[1-9][0-9]{2} \S.*$|^[1-9][0-9]{2} $')
_TOKEN_RE = re.compile(r"^[!#$%&'*+\-.^_`|~0-9A-Za-z]+$")
_BAD_VALUE = re.compile(r'[\x00-\x08\x0a-\x1f\x7f]')
HOP_BY_HOP = {'connection', 'keep-alive', 'proxy-authenticate', 'proxy-authorization',
              'te', 'trailers', 'transfer-encoding', 'upgrade'}


class ErrStream(io.StringIO):
    pass


def make_environ(method='GET', path='/', query='', headers=None, *, stream=None,
                 content_length=None, content_type=None, chunked=False,
                 file_wrapper=None, host='sim.test', errors=None, protocol='HTTP/1.1'):
    env = {
        'REQUEST_METHOD': method,
        'SCRIPT_NAME': '',
        'PATH_INFO': path,
        'QUERY_STRING': query,
        'SERVER_NAME': 'sim.test',
        'SERVER_PORT': '80',
        'SERVER_PROTOCOL': protocol,
        'HTTP_HOST': host,
        'wsgi.version': (1, 0),
        'wsgi.url_scheme': 'http',
        'wsgi.input': stream if stream is not None else io.BytesIO(b''),
        'wsgi.errors': errors if errors is not None else ErrStream(),
        'wsgi.multithread': True,
        'wsgi.multiprocess': False,
        'wsgi.run_once': False,
    }
    if content_length is not None:
        env['CONTENT_LENGTH'] = str(content_length)
    if content_type is not None:
        env['CONTENT_TYPE'] = content_type
    if chunked:
        # chunked may be True or the spelling of the header value (e.g. 'gzip, chunked': chunked is the final coding)
        env['HTTP_TRANSFER_ENCODING'] = chunked if isinstance(chunked, str) else 'chunked'
    if file_wrapper is not None:
        env['wsgi.file_wrapper'] = file_wrapper
    for k, v in (headers or {}).items():
        env['HTTP_' + k.upper().replace('-', '_')] = v
    return env


class Resp:
    __slots__ = ('sr_calls', 'status', 'code', 'headers', 'items', 'body', 'closed', 'close_error',
                 'escaped', 'iter_error', 'errors_text', 'problems', 'stopped_early', 'result_type',
                 'write_called', 'n_iterated')

    def header(self, name, default=None):
        name = name.lower()
        for k, v in self.headers or ():
            if k.lower() == name:
                return v
        return default

    def header_all(self, name):
        name = name.lower()
        return [v for k, v in self.headers or () if k.lower() == name]

    def canon(self):
        """Canonical, comparable form of the complete response."""
        return {
            'status': self.status,
            'headers': [list(h) for h in (self.headers or [])],
            'body': self.body.hex() if isinstance(self.body, bytes) else repr(self.body),
            'escaped': repr(self.escaped) if self.escaped else None,
        }


def call_app(app, environ, *, stop_after=None, on_event=None):
    """Drive `app` like a server would.  Returns Resp.  Never raises for app
    misbehaviour: everything is recorded."""
    r = Resp()
    r.sr_calls = []
    r.status = None
    r.code = None
    r.headers = None
    r.items = []
    r.body = b''
    r.closed = 0
    r.close_error = None
    r.escaped = None
    r.iter_error = None
    r.problems = []
    r.stopped_early = False
    r.result_type = None
    r.write_called = False
    r.n_iterated = 0
    ev = on_event or (lambda *a: None)

    def write(data):
        r.write_called = True

    def start_response(status, headers, exc_info=None):
        ev('start_response', status)
        r.sr_calls.append((status, list(headers) if isinstance(headers, list) else headers,
                           exc_info is not None, type(headers).__name__))
        if len(r.sr_calls) > 1 and exc_info is None:
            r.problems.append('start_response called again without exc_info')
        if r.n_iterated and exc_info is not None:
            # headers already sent: a real server re-raises
            r.problems.append('start_response(exc_info) after output started')
        r.status = status
        r.headers = headers
        return write

    result = None
    try:
        result = app(environ, start_response)
    except BaseException as e:   # noqa
        if type(e).__name__ == 'RunTimeout':
            raise        # the harness' own watchdog, not an exception of the application
        r.escaped = e
    else:
        r.result_type = type(result).__name__
        if result is None:
            r.problems.append('application returned None')
        else:
            if not r.sr_calls:
                # allowed by PEP 3333 only if start_response is called before the first item is yielded
                pass
            try:
                it = iter(result)
            except BaseException as e:   # noqa
                r.iter_error = e
                it = None
            if it is not None:
                try:
                    n = 0
                    if stop_after is not None and n >= stop_after:
                        r.stopped_early = True
                    else:
                        for item in it:
                            if not r.sr_calls:
                                r.problems.append('item yielded before start_response')
                            ev('item', len(item) if hasattr(item, '__len__') else None)
                            r.items.append(item)
                            n += 1
                            r.n_iterated = n
                            if stop_after is not None and n >= stop_after:
                                r.stopped_early = True
                                break
                except BaseException as e:   # noqa
                    if type(e).__name__ == 'RunTimeout':
                        raise
                    r.iter_error = e
            close = getattr(result, 'close', None)
            if close is not None:
                try:
                    ev('server-close')
                    close()
                    r.closed += 1
                except BaseException as e:   # noqa
                    r.close_error = e
    try:
        r.body = b''.join(x for x in r.items if isinstance(x, bytes))
    except Exception:
        r.body = b''
    if r.status is not None and isinstance(r.status, str) and r.status[:3].isdigit():
        r.code = int(r.status[:3])
    errs = environ.get('wsgi.errors')
    r.errors_text = errs.getvalue() if hasattr(errs, 'getvalue') else ''
    return r


def validate(r, *, method='GET'):
    """Independent PEP 3333 checks over a recorded response.  Returns a list of
    (clause, message)."""
    out = []
    if r.escaped is not None:
        out.append(('escape', f'exception escaped the application: {type(r.escaped).__name__}: {r.escaped}'))
        return out
    if r.iter_error is not None:
        out.append(('iter-escape', f'exception while iterating the result: {type(r.iter_error).__name__}: {r.iter_error}'))
    if r.close_error is not None:
        out.append(('close-escape', f'exception from close(): {type(r.close_error).__name__}: {r.close_error}'))
    for p in r.problems:
        out.append(('protocol', p))
    n_plain = sum(1 for c in r.sr_calls if not c[2])
    if len(r.sr_calls) == 0:
        out.append(('sr-count', 'start_response never called'))
        return out
    if n_plain > 1 or (len(r.sr_calls) > 1 and n_plain == len(r.sr_calls)):
        out.append(('sr-count', f'start_response called {len(r.sr_calls)} times'))
    status, headers, _, htype = r.sr_calls[-1]
    if type(status) is not str:
        out.append(('status-type', f'status is {type(status).__name__}'))
    else:
        if not _STATUS_RE.match(status):
            out.append(('status-shape', f'malformed status line {status!r}'))
        if _BAD_VALUE.search(status) or '\r' in status or '\n' in status:
            out.append(('status-ctl', f'control character in status {status!r}'))
        try:
            status.encode('latin1')
        except UnicodeError:
            out.append(('status-latin1', f'status not latin-1 {status!r}'))
    if htype != 'list':
        out.append(('headers-type', f'headers is {htype}, not list'))
    else:
        for h in headers:
            if type(h) is not tuple or len(h) != 2:
                out.append(('header-shape', f'header item {h!r} is not a 2-tuple'))
                continue
            k, v = h
            if type(k) is not str or type(v) is not str:
                out.append(('header-type', f'header {k!r}: {type(k).__name__}/{type(v).__name__}'))
                continue
            if not _TOKEN_RE.match(k):
                out.append(('header-name', f'bad header name {k!r}'))
            if k.lower() == 'status':
                out.append(('header-name', 'Status header is forbidden'))
            if k.lower() in HOP_BY_HOP:
                out.append(('header-hop', f'hop-by-hop header {k!r}'))
            if _BAD_VALUE.search(v) or '\r' in v or '\n' in v:
                out.append(('header-ctl', f'control character in header {k!r}: {v!r}'))
            try:
                v.encode('latin1')
            except UnicodeError:
                out.append(('header-latin1', f'header {k!r} value not latin-1: {v!r}'))
    for it in r.items:
        if type(it) is not bytes:
            out.append(('item-type', f'yielded item of type {type(it).__name__}'))
            break
    return out
