"""Core of the deterministic simulator: seed derivation, event logs and digests,
batch runner over forked workers, replay files, known findings, evidence.

One integer (VERIF_SEED) decides everything: run i of property P uses
random.Random(derive(root, P, i)); logging never draws from it and no clock is
read except by the batch runner, which only decides how many runs are started.
"""
import os
import sys
import json
import time
import hashlib
import random
import traceback
import faulthandler
import signal
import threading
import multiprocessing
from collections import Counter
from concurrent.futures import ProcessPoolExecutor, wait, FIRST_COMPLETED

VERIF = os.path.dirname(os.path.dirname(os.path.abspath(__file__)))
REPO = os.environ.get('OMBOTT_REPO', '/repo')
EVIDENCE_DIR = os.path.join(VERIF, 'evidence')
REPLAY_DIR = os.environ.get('VERIF_REPLAY_DIR') or os.path.join(VERIF, 'replays')
KNOWN_FINDINGS = os.path.join(VERIF, 'known_findings.json')

MASK = (1 << 64) - 1
DISTINCT_CAP = 3_000_000      # exact distinct counting up to this many keys


class HarnessError(Exception):
    """Something is wrong with the harness itself (never a VIOLATION)."""


def ensure_repo():
    """Put the current working tree of /repo first on sys.path and make sure
    that is what gets imported."""
    if sys.path[0] != REPO:
        sys.path.insert(0, REPO)
    import ombott
    f = os.path.realpath(ombott.__file__)
    if not f.startswith(os.path.realpath(REPO) + os.sep):
        raise HarnessError(f'ombott imported from {f}, not from {REPO}')
    return ombott


def splitmix(x):
    x = (x + 0x9E3779B97F4A7C15) & MASK
    z = x
    z = ((z ^ (z >> 30)) * 0xBF58476D1CE4E5B9) & MASK
    z = ((z ^ (z >> 27)) * 0x94D049BB133111EB) & MASK
    return z ^ (z >> 31)


def derive(root, prop, i, salt=0):
    h = splitmix(root & MASK)
    h = splitmix(h ^ int.from_bytes(prop.encode(), 'big'))
    h = splitmix(h ^ (salt & MASK))
    return splitmix((h + i * 0x9E3779B97F4A7C15) & MASK)


def digest(obj):
    """Stable digest of a JSON-able object (or bytes / str)."""
    if isinstance(obj, bytes):
        b = obj
    elif isinstance(obj, str):
        b = obj.encode('utf8', 'surrogateescape')
    else:
        b = json.dumps(obj, sort_keys=True, default=_json_default).encode()
    return hashlib.blake2b(b, digest_size=8).hexdigest()


def _json_default(o):
    if isinstance(o, bytes):
        return {'hex': o.hex()}
    if isinstance(o, (set, frozenset)):
        return sorted(o)
    return repr(o)


def hx(b):
    return b.hex()


def unhx(s):
    return bytes.fromhex(s)


class Log:
    """Event log of one run.  Lines are plain strings; never draws randomness,
    never reads a clock, never contains ids/addresses."""
    __slots__ = ('lines',)

    def __init__(self, seed=None):
        self.lines = []
        if seed is not None:
            self.lines.append(f'seed={seed}')

    def __call__(self, *parts):
        self.lines.append(' '.join(str(p) for p in parts))

    def digest(self):
        return digest('\n'.join(self.lines))


def new_result():
    return {'viol': [], 'fired': Counter(), 'probes': Counter(), 'nontrivial': False,
            'steps': 0, 'digest': None, 'states': None, 'key': None}


def violation(res, cls, msg, **detail):
    res['viol'].append({'cls': cls, 'msg': msg, 'detail': detail})


# ---------------------------------------------------------------------------
# batch execution
# ---------------------------------------------------------------------------

_WORKER = {}


def _worker_init(modname, tier, root, cur_dir=None):
    os.environ['OMBOTT_VERIF_WORKER'] = '1'
    _WORKER['cur_fd'] = None
    if cur_dir:
        try:
            _WORKER['cur_fd'] = os.open(os.path.join(cur_dir, f'{os.getpid()}.cur'), os.O_RDWR | os.O_CREAT, 0o600)
        except OSError:
            pass
    faulthandler.enable()
    ensure_repo()
    mod = load_prop(modname)
    _WORKER['mod'] = mod
    _WORKER['tier'] = tier
    _WORKER['root'] = root
    setup = getattr(mod, 'setup_worker', None)
    if setup:
        setup()


def load_prop(modname):
    import importlib
    return importlib.import_module(f'sim.props.{modname}')


class Agg:
    """Aggregated statistics of many runs; mergeable."""

    def __init__(self):
        self.evaluations = 0
        self.nontrivial = 0
        self.distinct = set()
        self.distinct_capped = False
        self.fired = Counter()
        self.probes = Counter()
        self.steps = 0
        self.states = set()
        self.viol = []           # [(order_key, cls, case, violation dict)]
        self.samples = []        # [(order_key, case summary)]
        self.digests = {}        # idx -> digest (sampled)
        self.errors = []         # harness errors

    def add(self, order_key, case, res, mod, keep_digest=False):
        self.evaluations += 1
        self.fired.update(res['fired'])
        self.probes.update(res['probes'])
        self.steps += res['steps']
        if res.get('states'):
            if len(self.states) < DISTINCT_CAP:
                self.states.update(res['states'])
        if res['nontrivial']:
            self.nontrivial += 1
            if len(self.distinct) < DISTINCT_CAP:
                k = res.get('key') or digest(case)
                self.distinct.add(k)
            else:
                self.distinct_capped = True
        if keep_digest:
            self.digests[order_key] = res['digest']
        if res['viol']:
            # keep a few instances per class: when the system under test carries state from one run to the
            # next, the first instance may be reproducible only with its (unknown) predecessors
            counts = Counter(v[1] for v in self.viol)
            for v in res['viol']:
                if counts[v['cls']] < 4 and len(self.viol) < 120:
                    self.viol.append((order_key, v['cls'], case, v))
                    counts[v['cls']] += 1
        if len(self.samples) < 2 and res['nontrivial']:
            self.samples.append((order_key, mod.summarise(case) if hasattr(mod, 'summarise') else case))

    def merge(self, other):
        self.evaluations += other.evaluations
        self.nontrivial += other.nontrivial
        if len(self.distinct) < DISTINCT_CAP:
            self.distinct |= other.distinct
        else:
            self.distinct_capped = True
        self.distinct_capped |= other.distinct_capped
        self.fired.update(other.fired)
        self.probes.update(other.probes)
        self.steps += other.steps
        if len(self.states) < DISTINCT_CAP:
            self.states |= other.states
        self.viol.extend(other.viol)
        self.samples.extend(other.samples)
        self.digests.update(other.digests)
        self.errors.extend(other.errors)


STALE_S = 90.0


class _Stuck(Exception):
    pass


class RunTimeout(BaseException):
    """Raised in the main thread by the wall-clock watchdog of a run (BaseException, so that
    the framework's own `except Exception` clauses cannot swallow it)."""


def _on_alarm(signum, frame):
    raise RunTimeout()


def run_one(mod, case):
    """Run one case; harness exceptions are re-raised as HarnessError with the
    case attached (never turned into a violation).  Modules that set RUN_TIMEOUT get a
    CPU-time watchdog (SIGVTALRM interrupts pure-Python loops and the regex engine alike): a run
    that exceeds it is a violation of class <PROP>:no-answer-within-<n>s, not a harness error."""
    if '_prior_runs' in case:
        # a violation that only shows after other runs of the same process (state kept in process-wide objects
        # of the system under test): the replayable unit is the sequence of cases, judged by its last one
        res = None
        for c in case['_prior_runs']:
            res = run_one(mod, c)
        return res
    limit = getattr(mod, 'RUN_TIMEOUT', None)
    armed = False
    if limit and 'twin' not in case and threading.current_thread() is threading.main_thread():
        # (scheduled twin runs are bounded by their deterministic step cap instead: frequent baton passing makes
        #  their wall-clock time a poor measure)
        # CPU time of this process, not wall-clock: a machine that deschedules the worker for seconds must not
        # turn into an alarm; an endless loop or a runaway regular expression burns CPU and is caught all the same
        old_handler = signal.signal(signal.SIGVTALRM, _on_alarm)
        signal.setitimer(signal.ITIMER_VIRTUAL, float(limit))
        armed = True
    try:
        res = mod.run_case(case)
    except RunTimeout:
        res = new_result()
        violation(res, f'{mod.PROP}:no-answer-within-{int(limit)}s',
                  f'the request was not answered within {limit} s of CPU time (ordinary runs take milliseconds): '
                  f'endless loop or runaway computation')
        res['nontrivial'] = True
        res['fired']['watchdog'] += 1
        res['digest'] = digest(['watchdog', limit])
        return res
    except HarnessError:
        raise
    except (KeyboardInterrupt, SystemExit):
        raise
    except BaseException as e:   # noqa
        try:
            tb = traceback.format_exc()
        except BaseException:   # noqa  (e.g. RadiDictKeyError.__getattr__ raises KeyError for __notes__)
            tb = ''.join(traceback.format_tb(e.__traceback__))
        raise HarnessError(f'run_case raised {type(e).__name__}: {e}\n{tb}\ncase={json.dumps(case, default=_json_default)[:2000]}') from None
    finally:
        if armed:
            signal.setitimer(signal.ITIMER_VIRTUAL, 0)
            signal.signal(signal.SIGVTALRM, old_handler)
    if res['digest'] is None:
        raise HarnessError('run_case returned no digest')
    return res


def _mark_current(*key):
    """Tell the parent which run this worker is executing (a few bytes at offset 0 of its marker file), so that
    a run that can be ended only by killing the process can still be named."""
    fd = _WORKER.get('cur_fd')
    if fd is not None:
        try:
            os.pwrite(fd, (json.dumps(key) + ' ' * 48)[:64].encode(), 0)
        except OSError:
            pass


def _task_seeds(i0, i1, digest_every):
    mod, tier, root = _WORKER['mod'], _WORKER['tier'], _WORKER['root']
    agg = Agg()
    for i in range(i0, i1):
        seed = derive(root, mod.PROP, i)
        try:
            case = mod.gen_case(random.Random(seed), tier)
            case['_seed'] = seed
            _mark_current('s', i)
            res = run_one(mod, case)
        except HarnessError as e:
            agg.errors.append(f'run {i} seed {seed}: {e}')
            if len(agg.errors) > 3:
                break
            continue
        agg.add(('s', i), case, res, mod, keep_digest=(i % digest_every == 0))
    _mark_current('idle')
    return agg


def _task_unit(uidx, unit):
    mod = _WORKER['mod']
    agg = Agg()
    try:
        for j, case in enumerate(mod.expand_unit(unit)):
            _mark_current('u', uidx, j)
            res = run_one(mod, case)
            agg.add(('u', uidx, j), case, res, mod, keep_digest=(j == 0))
    except HarnessError as e:
        agg.errors.append(f'unit {uidx}: {e}')
    _mark_current('idle')
    return agg


def run_batch(modname, tier, root, *, n_runs, budget_s, workers=None, batch=None, units=None,
              digest_every=97, progress=True):
    """Run `units` (deterministic sweeps) and then up to n_runs seeded runs, stopping to
    *start* new batches when budget_s wall seconds are spent.  Content of run i never
    depends on timing."""
    mod = load_prop(modname)
    workers = workers or min(16, os.cpu_count() or 1)
    t0 = time.time()
    agg = Agg()
    ctx = multiprocessing.get_context('fork')
    batch = batch or getattr(mod, 'BATCH', 200)
    units = list(units or [])
    hard_timeout = max(120.0, budget_s * 4 + 120)
    last_done = t0
    submitted_runs = 0
    import tempfile
    import shutil
    cur_dir = tempfile.mkdtemp(prefix=f'simcheck-{os.getpid()}-')
    agg.stuck = []
    with ProcessPoolExecutor(max_workers=workers, mp_context=ctx,
                             initializer=_worker_init, initargs=(modname, tier, root, cur_dir)) as ex:
        pending = set()
        unit_iter = iter(enumerate(units))
        units_done = False
        next_i = 0
        stop_new = False
        units_submitted = 0
        try:
            while True:
                # top up
                while not stop_new and len(pending) < workers * 2:
                    if not units_done and time.time() - t0 > budget_s * 0.6:
                        units_done = True       # the rest of the budget belongs to the seeded runs
                        continue
                    if not units_done:
                        nxt = next(unit_iter, None)
                        if nxt is None:
                            units_done = True
                            continue
                        pending.add(ex.submit(_task_unit, nxt[0], nxt[1]))
                        units_submitted += 1
                        continue
                    if next_i >= n_runs:
                        break
                    if time.time() - t0 > budget_s:
                        stop_new = True
                        break
                    i1 = min(n_runs, next_i + batch)
                    pending.add(ex.submit(_task_seeds, next_i, i1, digest_every))
                    submitted_runs = i1
                    next_i = i1
                if not pending:
                    break
                done, pending = wait(pending, timeout=10.0, return_when=FIRST_COMPLETED)
                now = time.time()
                if done:
                    last_done = now
                hung = False
                if not done:
                    if now - last_done > hard_timeout:
                        hung = True
                    elif stop_new and now - t0 > budget_s + 30:
                        # the budget is over, ordinary batches end within seconds: workers that have been sitting
                        # in one and the same run for more than STALE_S seconds are not going to answer
                        ages = []
                        for fn in os.listdir(cur_dir):
                            try:
                                st = os.stat(os.path.join(cur_dir, fn))
                                busy = open(os.path.join(cur_dir, fn)).read(8).startswith(('["s"', '["u"'))
                            except OSError:
                                continue
                            if busy:
                                ages.append(now - st.st_mtime)
                        hung = bool(ages) and min(ages) > STALE_S
                if hung:
                    # which runs are the workers sitting in?  (they are killed below; the caller confirms each
                    # suspect in a process of its own and reports the ones that never answer as violations)
                    for fn in sorted(os.listdir(cur_dir)):
                        try:
                            key = json.loads(open(os.path.join(cur_dir, fn)).read().strip() or 'null')
                        except (OSError, ValueError):
                            key = None
                        if key and key[0] in ('s', 'u'):
                            agg.stuck.append(tuple(key))
                    if not agg.stuck:
                        raise HarnessError(f'no worker finished within {hard_timeout:.0f}s (hang?)')
                    raise _Stuck()
                for f in done:
                    agg.merge(f.result())
                if agg.errors:
                    stop_new = True
                # stop early once a violation is known: the rest of the budget goes to minimisation
                if agg.viol and time.time() - t0 > min(budget_s, 20):
                    stop_new = True
        except BaseException as exc:
            time.sleep(0.3)      # let a dying worker flush its traceback
            for p in list(getattr(ex, '_processes', {}).values()):
                try:
                    p.kill()
                except Exception:
                    pass
            shutil.rmtree(cur_dir, ignore_errors=True)
            try:
                ex.shutdown(wait=False, cancel_futures=True)
            except Exception:   # noqa
                pass
            if not isinstance(exc, _Stuck):
                raise
    shutil.rmtree(cur_dir, ignore_errors=True)
    agg.wall = time.time() - t0
    agg.submitted_runs = submitted_runs
    agg.units = units_submitted
    agg.units_total = len(units)
    return agg


# ---------------------------------------------------------------------------
# known findings
# ---------------------------------------------------------------------------

def load_known():
    if not os.path.exists(KNOWN_FINDINGS):
        return []
    with open(KNOWN_FINDINGS) as f:
        return json.load(f).get('findings', [])


def match_known(prop, cls, known):
    for k in known:
        if k.get('property') == prop and k.get('status') == 'open' and k.get('class') == cls:
            return k
    return None


# ---------------------------------------------------------------------------
# replay files
# ---------------------------------------------------------------------------

def write_replay(prop, cls, case, viol, res_digest, original_case=None, subdir=None):
    d = REPLAY_DIR if not subdir else os.path.join(REPLAY_DIR, subdir)
    os.makedirs(d, exist_ok=True)
    safe = ''.join(c if c.isalnum() or c in '-_' else '_' for c in cls)[:80]
    name = f'{prop}-{safe}-{digest(case)}.json'
    path = os.path.join(d, name)
    doc = {
        'property': prop,
        'class': cls,
        'seed': case.get('_seed'),
        'case': case,
        'message': viol.get('msg'),
        'detail': viol.get('detail'),
        'digest': res_digest,
    }
    if original_case is not None:
        doc['original_seed'] = original_case.get('_seed')
        doc['original_size'] = len(json.dumps(original_case, default=_json_default))
        doc['minimised_size'] = len(json.dumps(case, default=_json_default))
    with open(path, 'w') as f:
        json.dump(doc, f, indent=1, default=_json_default, sort_keys=True)
    return path


def write_evidence(prop, doc):
    os.makedirs(EVIDENCE_DIR, exist_ok=True)
    path = os.path.join(EVIDENCE_DIR, f'{prop}.json')
    tmp = path + '.tmp'
    with open(tmp, 'w') as f:
        json.dump(doc, f, indent=1, default=_json_default)
    os.replace(tmp, path)
    return path


def run_isolated(mod, case, timeout_s=60.0):
    """Run one case in a forked child of its own.  Returns ('done', [violation classes], digest) or
    ('no-answer', None, None) when the child had to be killed after timeout_s seconds of wall-clock time
    (used only for runs that already kept a worker busy beyond the batch's hard timeout)."""
    ctx = multiprocessing.get_context('fork')
    r, w = ctx.Pipe(duplex=False)

    def child():
        try:
            setup = getattr(mod, 'setup_worker', None)
            if setup:
                setup()
            res = run_one(mod, case)
            w.send(('done', [v['cls'] for v in res['viol']], res['digest']))
        except BaseException as e:   # noqa
            try:
                w.send(('error', f'{type(e).__name__}: {e}', None))
            except Exception:   # noqa
                pass
        finally:
            os._exit(0)
    p = ctx.Process(target=child)
    p.start()
    w.close()
    out = ('no-answer', None, None)
    if r.poll(timeout_s):
        try:
            out = r.recv()
        except EOFError:
            out = ('error', 'child died', None)
    if p.is_alive():
        p.kill()
    p.join(5)
    return out
