"""E-stream: the simulated body transport.

SimStream is the only wsgi.input the framework sees.  read(n) returns between 1
and min(n, available) bytes while bytes remain and b'' at EOF (the file-object
contract PEP 3333 delegates to); how many is decided by the run's delivery
schedule.  Every call is recorded.  Faults (early EOF, surplus, corruption) are
applied to the byte string before the run by the property modules; this module
reports which of them the reader actually *met*.
"""
import io
import threading
import random
import tempfile

from .core import HarnessError


class SimHang(Exception):
    """The reader made more calls than any correct reader needs (liveness bound)."""


class Schedule:
    """Delivery schedule.  dict forms:
      {'mode': 'full'}
      {'mode': 'cuts', 'cuts': [abs offsets]}       a read never crosses a cut
      {'mode': 'regular', 'k': k}                   cuts at every multiple of k
      {'mode': 'rand', 'seed': s, 'p': p, 'max': m} each read returns a geometric/uniform short size
      {'mode': 'script', 'sizes': [k0, k1, ...]}    i-th call returns at most k_i; then full
    """

    def __init__(self, spec):
        self.spec = spec or {'mode': 'full'}
        m = self.spec['mode']
        self.mode = m
        if m == 'cuts':
            self.cuts = sorted(set(int(c) for c in self.spec['cuts']))
            self._ci = 0
        elif m == 'regular':
            self.k = max(1, int(self.spec['k']))
        elif m == 'rand':
            self.rng = random.Random(self.spec['seed'])
            self.p = self.spec.get('p', 0.5)
            self.max = self.spec.get('max', 8)
        elif m == 'script':
            self.sizes = list(self.spec['sizes'])
            self._i = 0
        elif m != 'full':
            raise HarnessError(f'unknown schedule mode {m}')

    def limit(self, pos, n):
        """Upper limit of bytes for a read of n at absolute offset pos (>=1)."""
        m = self.mode
        if m == 'full':
            return n
        if m == 'cuts':
            cuts = self.cuts
            i = self._ci
            while i < len(cuts) and cuts[i] <= pos:
                i += 1
            self._ci = i
            if i < len(cuts):
                return max(1, min(n, cuts[i] - pos))
            return n
        if m == 'regular':
            k = self.k
            return max(1, min(n, k - (pos % k)))
        if m == 'rand':
            r = self.rng
            if r.random() < self.p:
                return max(1, min(n, r.randint(1, self.max)))
            return n
        if m == 'script':
            i = self._i
            self._i += 1
            if i < len(self.sizes):
                return max(1, min(n, self.sizes[i]))
            return n


class SimStream:
    def __init__(self, data, sched=None, *, endless=None, max_calls=None, log=None):
        self.data = data
        self.pos = 0
        self.sched = Schedule(sched)
        self.endless = endless          # pattern repeated forever after data
        self.calls = []                 # (n_requested, n_returned, offset_before)
        self.protocol = []              # protocol events: unbounded reads etc.
        self.n_short = 0                # returned < asked although more data followed
        self.hit_eof = False            # a read met EOF (returned fewer than asked because data ended)
        self.eof_reads = 0              # reads that returned b''
        self.max_calls = max_calls if max_calls is not None else len(data) + 64
        self.keep_alive = False         # True: no EOF after the data, a read there blocks (reported as SimHang)
        self.log = log
        self.closed = False

    # --- file protocol ---------------------------------------------------
    def read(self, n=-1):
        if len(self.calls) >= self.max_calls:
            raise SimHang(f'{len(self.calls)} read calls for {len(self.data)} bytes')
        pos = self.pos
        if n is None or n < 0:
            self.protocol.append(('unbounded-read', pos))
            if self.endless is not None:
                raise SimHang('unbounded read() on an endless stream')
            out = self.data[pos:]
            self.pos = len(self.data)
            self.hit_eof = True
            self.calls.append((-1, len(out), pos))
            return out
        if n == 0:
            self.protocol.append(('zero-read', pos))
            self.calls.append((0, 0, pos))
            return b''
        total = len(self.data)
        if self.endless is not None and pos >= total:
            # endless tail
            k = self.sched.limit(pos, n)
            pat = self.endless
            off = (pos - total) % len(pat)
            out = (pat[off:] + pat * (k // len(pat) + 1))[:k]
            self.pos += k
            self.calls.append((n, k, pos))
            return out
        avail = total - pos
        if avail <= 0 and self.endless is None and self.keep_alive:
            # the peer has sent its complete message and keeps the connection open: a further read never returns
            self.calls.append((n, 0, pos))
            raise SimHang(f'read({n}) at offset {pos} after the complete message was delivered on a connection that '
                          f'stays open: the read would block for ever')
        if avail <= 0 and self.endless is None:
            self.hit_eof = True
            self.eof_reads += 1
            self.calls.append((n, 0, pos))
            return b''
        k = min(self.sched.limit(pos, n), avail)
        out = self.data[pos:pos + k]
        self.pos += k
        if k < n:
            if self.pos < total or self.endless is not None:
                self.n_short += 1
            else:
                self.hit_eof = True
        self.calls.append((n, k, pos))
        return out

    # --- accounting ------------------------------------------------------
    @property
    def consumed(self):
        return self.pos

    @property
    def n_calls(self):
        return len(self.calls)

    def sizes_script(self):
        """Explicit script reproducing this run's delivery (for replay / shrinking)."""
        return [k for (n, k, pos) in self.calls if n > 0 and k > 0]

    def max_overrequest(self, owed_total):
        """Largest (offset + n_requested) - owed_total over all calls (>0 means the
        reader asked for bytes beyond owed_total)."""
        worst = 0
        for n, k, pos in self.calls:
            if n > 0:
                worst = max(worst, pos + n - owed_total)
        return worst


class MemTemp(io.BytesIO):
    """In-memory stand-in for the spill file (stub variant of the temp-file seam)."""
    is_sim_temp = True


class TempSeam:
    """Replaces body_mixin.TemporaryFile.  Counts creations; returns the real
    tempfile.TemporaryFile (mode 'real') or an in-memory stub (mode 'mem')."""

    def __init__(self, mode='real'):
        self.mode = mode
        self.files = []

    def __call__(self, *a, **kw):
        if self.mode == 'real':
            f = _REAL_TEMPFILE(*a, **kw)
        else:
            f = MemTemp()
        self.files.append(f)
        return f

    @property
    def created(self):
        return len(self.files)

    def owns(self, obj):
        """Is obj a spill file?  One handed out by this seam - or, when the code under test reaches the
        operating system's temporary files by another route than the names the seam replaces, any object
        backed by a file descriptor (what 'kept on disk rather than in memory' means)."""
        if any(obj is f or getattr(obj, 'raw', None) is f or getattr(obj, 'file', None) is f for f in self.files):
            return True
        return is_os_file(obj)

    def close_all(self):
        for f in self.files:
            try:
                f.close()
            except Exception:
                pass
        self.files = []


def is_os_file(obj):
    """True for an object that keeps its content in a file of the operating system (never for BytesIO)."""
    if obj is None or isinstance(obj, io.BytesIO):
        return False
    if isinstance(obj, tempfile.SpooledTemporaryFile):
        return bool(getattr(obj, '_rolled', False))        # fileno() would itself force the roll-over
    try:
        return isinstance(obj.fileno(), int)
    except Exception:
        return False


_SEAM_TL = threading.local()
_REAL_TEMPFILE = tempfile.TemporaryFile


def _seam_dispatch(*a, **kw):
    """Installed once at body_mixin.TemporaryFile: routes the call to the seam the calling
    thread has entered (threads of a concurrent run each have their own), else to the real thing."""
    stack = getattr(_SEAM_TL, 'stack', None)
    if stack:
        return stack[-1](*a, **kw)
    return _REAL_TEMPFILE(*a, **kw)


class temp_seam:
    """Context manager installing a TempSeam at the module attribute seam (per thread)."""

    def __init__(self, mode='real'):
        self.seam = TempSeam(mode)

    def __enter__(self):
        # the seam is the name the reader calls: the module attribute body_mixin.TemporaryFile as the code stands,
        # tempfile.TemporaryFile for a reader that goes through the module
        from ombott.request_pkg import body_mixin
        if getattr(body_mixin, 'TemporaryFile', None) not in (None, _seam_dispatch):
            body_mixin.TemporaryFile = _seam_dispatch
        if tempfile.TemporaryFile is not _seam_dispatch:
            tempfile.TemporaryFile = _seam_dispatch
        stack = getattr(_SEAM_TL, 'stack', None)
        if stack is None:
            stack = _SEAM_TL.stack = []
        stack.append(self.seam)
        return self.seam

    def __exit__(self, *exc):
        _SEAM_TL.stack.pop()
        self.seam.close_all()
        return False


# ---------------------------------------------------------------------------
# schedule generators / shrinkers
# ---------------------------------------------------------------------------

def gen_schedule(rng, total_len, B=None):
    """Swarm-style choice of a delivery schedule for a stream of total_len bytes."""
    r = rng.random()
    if r < 0.12:
        return {'mode': 'full'}
    if r < 0.22:
        return {'mode': 'regular', 'k': 1}
    if r < 0.34:
        ks = [1, 2, 3, 5, 7]
        if B:
            ks += [max(1, B - 1), B, B + 1]
        return {'mode': 'regular', 'k': rng.choice(ks)}
    if r < 0.62:
        return {'mode': 'rand', 'seed': rng.getrandbits(32), 'p': rng.choice([0.1, 0.3, 0.6, 0.9, 1.0]),
                'max': rng.choice([1, 2, 3, 8, 64])}
    # segments / cuts
    n = min(total_len, rng.choice([1, 1, 2, 3, 5, 10]))
    if total_len > 1:
        cuts = sorted(set(rng.randrange(1, total_len) for _ in range(n)))
    else:
        cuts = []
    return {'mode': 'cuts', 'cuts': cuts}


def simpler_schedules(spec, stream=None):
    """Candidate simpler schedules for minimisation."""
    m = spec.get('mode')
    if m == 'full':
        return
    yield {'mode': 'full'}
    if m == 'cuts':
        cuts = spec['cuts']
        if len(cuts) > 1:
            h = len(cuts) // 2
            yield {'mode': 'cuts', 'cuts': cuts[:h]}
            yield {'mode': 'cuts', 'cuts': cuts[h:]}
            for i in range(len(cuts)):
                yield {'mode': 'cuts', 'cuts': cuts[:i] + cuts[i + 1:]}
        for i, c in enumerate(cuts):
            for c2 in (1, c // 2, c - 1):
                if 1 <= c2 < c and c2 not in cuts:
                    yield {'mode': 'cuts', 'cuts': sorted(cuts[:i] + [c2] + cuts[i + 1:])}
    elif m == 'script':
        sizes = spec['sizes']
        if len(sizes) > 1:
            h = len(sizes) // 2
            yield {'mode': 'script', 'sizes': sizes[:h]}
            for i in range(len(sizes)):
                yield {'mode': 'script', 'sizes': sizes[:i] + [1 << 30] + sizes[i + 1:]}
        # trim trailing no-op entries
        t = list(sizes)
        while t and t[-1] >= (1 << 30):
            t.pop()
        if len(t) < len(sizes):
            yield {'mode': 'script', 'sizes': t}
    elif m in ('rand', 'regular'):
        if stream is not None:
            yield {'mode': 'script', 'sizes': stream.sizes_script()}
