"""Pristine reference processes ("restart" taken literally).

A reference computed inside the process under test shares every process-wide
object of the system under test with the run it is compared to (the
DefaultConfig.errors_map responses, module-level caches and scratch objects,
class attributes, the default application, the status-line table, ...): once
one of them is polluted, the reference is polluted too and agrees with the
faulty run - or disagrees with an innocent one.  Reference computations
therefore run in a child forked from a *zygote* that was itself forked when the
worker started, after importing ombott but before serving anything: every
reference starts from the state of a freshly started process and cannot be
influenced by (or influence) anything the worker has served.

    start()                                   once per worker / parent (setup_worker)
    call('sim.props.c08', 'plain_reference', spec, cfg)  -> result of that function in a pristine child

A second, named zygote ('replay', started by simcheck before anything runs and prepared with the module's
setup_worker) gives the parent "a fresh process per run" for violations that show only the first time a process
meets their input (a cache inside the system under test filled by the first run): candidates of the minimisation
and the final confirmation are each evaluated in a child forked from it.
"""
import importlib
import os
import pickle
import select
import struct

from .core import HarnessError

_ZS = {}          # name -> {'pid', 'w', 'r', 'owner'}
CHILD_TIMEOUT = 30.0


def _write(fd, obj):
    data = pickle.dumps(obj, protocol=4)
    data = struct.pack('>I', len(data)) + data
    while data:
        n = os.write(fd, data)
        data = data[n:]


def _read_exact(fd, n, timeout=None):
    buf = b''
    while len(buf) < n:
        if timeout is not None:
            r, _, _ = select.select([fd], [], [], timeout)
            if not r:
                return None
        chunk = os.read(fd, n - len(buf))
        if not chunk:
            return b'' if not buf else None
        buf += chunk
    return buf


def _read(fd, timeout=None):
    head = _read_exact(fd, 4, timeout)
    if not head:
        return head          # b'' = EOF, None = timeout/short
    (n,) = struct.unpack('>I', head)
    body = _read_exact(fd, n, timeout)
    if not body:
        return None
    return pickle.loads(body)


def _zygote(rfd, wfd):
    while True:
        msg = _read(rfd)
        if msg == b'' or msg is None:
            os._exit(0)
        if msg[0] == '__self__':
            # executed by the zygote itself: brings it (and every child forked from now on) into a prepared state
            try:
                _, modname, fname, args = msg
                getattr(importlib.import_module(modname), fname)(*args)
                out = ('ok', None)
            except BaseException as e:   # noqa
                out = ('err', f'{type(e).__name__}: {e}')
            _write(wfd, out)
            continue
        rr, ww = os.pipe()
        pid = os.fork()
        if pid == 0:
            os.close(rr)
            try:
                modname, fname, args = msg
                fn = getattr(importlib.import_module(modname), fname)
                out = ('ok', fn(*args))
            except BaseException as e:   # noqa
                out = ('err', f'{type(e).__name__}: {e}')
            try:
                _write(ww, out)
            finally:
                os._exit(0)
        os.close(ww)
        out = _read(rr, timeout=CHILD_TIMEOUT)
        if out is None or out == b'':
            try:
                os.kill(pid, 9)
            except OSError:
                pass
            out = ('timeout', f'no answer from the pristine child within {CHILD_TIMEOUT}s')
        os.close(rr)
        try:
            os.waitpid(pid, 0)
        except OSError:
            pass
        _write(wfd, out)


def start(name='ref'):
    """Fork the zygote `name` (idempotent per process).  Must be called before the process serves anything."""
    z = _ZS.get(name)
    if z is not None and z['owner'] == os.getpid():
        return
    r1, w1 = os.pipe()
    r2, w2 = os.pipe()
    pid = os.fork()
    if pid == 0:
        os.close(w1)
        os.close(r2)
        try:
            _zygote(r1, w2)
        finally:
            os._exit(0)
    os.close(r1)
    os.close(w2)
    _ZS[name] = {'pid': pid, 'w': w1, 'r': r2, 'owner': os.getpid()}


def adopt():
    """In a child forked from a zygote: take over the zygotes that zygote owns (children of one zygote run one at
    a time, so its pipes are never used by two processes at once)."""
    for z in _ZS.values():
        z['owner'] = os.getpid()


def _roundtrip(name, msg, timeout):
    z = _ZS.get(name)
    if z is None or z['owner'] != os.getpid():
        raise HarnessError(f'pristine.start({name!r}) was not called in this process')
    _write(z['w'], msg)
    out = _read(z['r'], timeout=timeout)
    if out is None or out == b'':
        raise HarnessError(f'the pristine zygote {name!r} died')
    return out      # ('ok', value) | ('err', text) | ('timeout', text)


def call(modname, fname, *args, zygote='ref'):
    return _roundtrip(zygote, (modname, fname, args), CHILD_TIMEOUT + 10)


def prepare(zygote, modname, fname, *args):
    """Run modname.fname(*args) inside the zygote itself (e.g. a warm-up every later child starts from)."""
    return _roundtrip(zygote, ('__self__', modname, fname, args), 600)
