"""Pristine reference processes ("restart" taken literally).

A reference computed inside the process under test shares every process-wide
object of the system under test with the run it is compared to (the
DefaultConfig.errors_map responses, module-level caches and scratch objects,
class attributes, the default application, the status-line table, ...): once
one of them is polluted, the reference is polluted too and agrees with the
faulty run - or disagrees with an innocent one.  Reference computations
therefore run in a child forked from a *zygote* that was itself forked when the
worker started, after importing ombott but before serving anything: every
reference starts from the state of a freshly started process and cannot be
influenced by (or influence) anything the worker has served.

    start()                                   once per worker / parent (setup_worker)
    call('sim.props.c08', 'plain_reference', spec, cfg)  -> result of that function in a pristine child
"""
import importlib
import os
import pickle
import select
import struct

from .core import HarnessError

_Z = {'pid': None, 'w': None, 'r': None, 'owner': None}
CHILD_TIMEOUT = 30.0


def _write(fd, obj):
    data = pickle.dumps(obj, protocol=4)
    data = struct.pack('>I', len(data)) + data
    while data:
        n = os.write(fd, data)
        data = data[n:]


def _read_exact(fd, n, timeout=None):
    buf = b''
    while len(buf) < n:
        if timeout is not None:
            r, _, _ = select.select([fd], [], [], timeout)
            if not r:
                return None
        chunk = os.read(fd, n - len(buf))
        if not chunk:
            return b'' if not buf else None
        buf += chunk
    return buf


def _read(fd, timeout=None):
    head = _read_exact(fd, 4, timeout)
    if not head:
        return head          # b'' = EOF, None = timeout/short
    (n,) = struct.unpack('>I', head)
    body = _read_exact(fd, n, timeout)
    if not body:
        return None
    return pickle.loads(body)


def _zygote(rfd, wfd):
    while True:
        msg = _read(rfd)
        if msg == b'' or msg is None:
            os._exit(0)
        rr, ww = os.pipe()
        pid = os.fork()
        if pid == 0:
            os.close(rr)
            try:
                modname, fname, args = msg
                fn = getattr(importlib.import_module(modname), fname)
                out = ('ok', fn(*args))
            except BaseException as e:   # noqa
                out = ('err', f'{type(e).__name__}: {e}')
            try:
                _write(ww, out)
            finally:
                os._exit(0)
        os.close(ww)
        out = _read(rr, timeout=CHILD_TIMEOUT)
        if out is None or out == b'':
            try:
                os.kill(pid, 9)
            except OSError:
                pass
            out = ('timeout', f'no answer from the pristine child within {CHILD_TIMEOUT}s')
        os.close(rr)
        try:
            os.waitpid(pid, 0)
        except OSError:
            pass
        _write(wfd, out)


def start():
    """Fork the zygote (idempotent per process).  Must be called before the process serves anything."""
    if _Z['pid'] is not None and _Z['owner'] == os.getpid():
        return
    r1, w1 = os.pipe()
    r2, w2 = os.pipe()
    pid = os.fork()
    if pid == 0:
        os.close(w1)
        os.close(r2)
        # the zygote must not keep the pipes of an inherited zygote of its parent process
        try:
            _zygote(r1, w2)
        finally:
            os._exit(0)
    os.close(r1)
    os.close(w2)
    _Z.update(pid=pid, w=w1, r=r2, owner=os.getpid())


def call(modname, fname, *args):
    if _Z['pid'] is None or _Z['owner'] != os.getpid():
        raise HarnessError('pristine.start() was not called in this process')
    _write(_Z['w'], (modname, fname, args))
    out = _read(_Z['r'], timeout=CHILD_TIMEOUT + 10)
    if out is None or out == b'':
        raise HarnessError('the pristine zygote died')
    return out      # ('ok', value) | ('err', text) | ('timeout', text)
