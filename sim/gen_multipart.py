"""Reference multipart/form-data client: boundary, part and body generators
with explicit structure (so cases can be shrunk and replayed), plus the
field-level encoder used by the round-trip properties."""

BCHARS_TOKEN = "abcxyzABCXYZ0123456789'+_-."          # bchars that are also RFC 7230 token chars
BCHARS_ALL = BCHARS_TOKEN + "(),/:=? "                  # full RFC 2046 bchars (space not last)
SPECIAL_BOUNDARIES = ['-', '--', '---', 'a', 'abab', 'aab', '-a-', 'a--', "--a", 'ab-ab', 'xx', "0", '.', '----x----']

FRAGS = [b'\r', b'\n', b'-', b'--', b'\r\n', b'\r\n-', b'\r\n--', b'\r\r\n', b'\n\r\n', b'\r\n\r\n', b'a', b'b',
         b'\x00', b'\xff', b' ', b'--\r\n', b'\r\n\r', b'-\r', b'\r-', b'\r\n\r\n--']


def gen_boundary(rng, token_only=False):
    r = rng.random()
    if r < 0.3:
        return rng.choice(SPECIAL_BOUNDARIES)
    chars = BCHARS_TOKEN if token_only or rng.random() < 0.6 else BCHARS_ALL
    n = rng.choice([1, 2, 3, 5, 8, 16, 30, 70, rng.randint(1, 70)])
    b = ''.join(rng.choice(chars) for _ in range(n))
    if b.endswith(' '):
        b = b[:-1] + 'x'
    return b


def is_token(s):
    return all(c in "!#$%&'*+-.^_`|~0123456789abcdefghijklmnopqrstuvwxyzABCDEFGHIJKLMNOPQRSTUVWXYZ" for c in s) and s != ''


def delim(boundary):
    return b'\r\n--' + boundary.encode()


def gen_data(rng, boundary, max_len=60):
    """Part data rich in delimiter look-alikes that never contains CRLF--boundary."""
    d = delim(boundary)
    frags = FRAGS + [d[:k] for k in range(1, len(d))][:12] + [d[2:], d[2:] + b'--', d[1:], d[:-1] if len(d) > 1 else b'']
    n = rng.choice([0, 0, 1, 2, 3, 5, 8, 12, 20])
    out = bytearray()
    for _ in range(n):
        if rng.random() < 0.15:
            out += bytes(rng.getrandbits(8) for _ in range(rng.randint(1, 6)))
        else:
            out += rng.choice(frags)
        if len(out) >= max_len:
            break
    out = bytes(out[:max_len])
    # repair: break every accidental delimiter occurrence
    guard = 0
    while d in out and guard < 100:
        i = out.index(d)
        j = i + len(d) - 1
        out = out[:j] + (b'!' if out[j:j + 1] != b'!' else b'?') + out[j + 1:]
        guard += 1
    if d in out:
        return b''
    return out


HEADER_NAMES = ['Content-Disposition', 'Content-Type', 'X-Extra', 'Content-Transfer-Encoding']


def gen_header_block(rng, boundary, name=None):
    """1-3 header lines, CRLF separated (no terminator).  Always has a
    Content-Disposition with a name so that the body is form-data."""
    lines = []
    nm = name if name is not None else rng.choice(['f', 'g', 'file', 'x1'])
    cd = f'Content-Disposition: form-data; name="{nm}"'
    if rng.random() < 0.4:
        cd += f'; filename="{rng.choice(["a.txt", "b.bin", "--" + boundary, "x"])}"'
    lines.append(cd)
    for _ in range(rng.choice([0, 0, 1, 2])):
        r = rng.random()
        if r < 0.4:
            lines.append('Content-Type: ' + rng.choice(['text/plain', 'application/octet-stream', 'text/plain; charset=utf-8']))
        elif r < 0.7:
            lines.append('X-Extra: ' + rng.choice(['--' + boundary, '-', '--', 'v', '', 'a\tb', '\r'.join(['q', 'r']) if False else 'qr']))
        else:
            lines.append('X-Pad: ' + 'p' * rng.randint(0, 30))
    if rng.random() < 0.3:
        rng.shuffle(lines)
    return '\r\n'.join(lines).encode('utf8')


def gen_structure(rng, *, token_only=False, max_parts=4, max_data=60):
    boundary = gen_boundary(rng, token_only)
    n = rng.choice([0, 1, 1, 2, 2, 3, rng.randint(0, max_parts)])
    parts = []
    for i in range(n):
        parts.append({'headers': gen_header_block(rng, boundary, name=f'n{i}').hex(),
                      'data': gen_data(rng, boundary, max_data).hex()})
    r = rng.random()
    if r < 0.35:
        tail = b''
    elif r < 0.7:
        tail = b'\r\n'
    else:
        tail = rng.choice([b'\r\nepilogue', b'--', b'-', b'\r', b'\n', b'x', b'\r\n--' + boundary.encode() + b'--\r\n',
                           b'\r\n' + bytes(rng.getrandbits(8) for _ in range(rng.randint(1, 20))),
                           # epilogues that would pass for a part if the closing delimiter were taken for an ordinary one
                           b'\r\n\r\n', b'\r\n\r\nmore\r\n', b'\r\nContent-Disposition: form-data; name="e"\r\n\r\nzz',
                           b'\r\nContent-Disposition: form-data; name="e"\r\n\r\nzz\r\n--' + boundary.encode() + b'--\r\n'])
    return {'boundary': boundary, 'parts': parts, 'lead_crlf': rng.random() < 0.25, 'tail': tail.hex(),
            'closed': True}


def build(st):
    """-> (body bytes, layout) where layout lists for each part the absolute
    (headers_start, headers_end, data_start, data_end)."""
    b = st['boundary'].encode()
    out = bytearray()
    layout = []
    if st.get('preamble'):
        out += bytes.fromhex(st['preamble'])
    if st.get('lead_crlf'):
        out += b'\r\n'
    first = True
    for p in st['parts']:
        if not first:
            out += b'\r\n'
        out += b'--' + b + b'\r\n'
        hs = len(out)
        out += bytes.fromhex(p['headers'])
        he = len(out)
        out += b'\r\n\r\n'
        ds = len(out)
        out += bytes.fromhex(p['data'])
        de = len(out)
        layout.append((hs, he, ds, de))
        first = False
    if st.get('closed', True):
        if not first:
            out += b'\r\n'
        out += b'--' + b + b'--'
        out += bytes.fromhex(st.get('tail', ''))
    return bytes(out), layout


def expected_markups(st):
    """The markup list a correct parser produces for a complete well-formed body built by build()."""
    body, layout = build(st)
    lead = 2 if st.get('lead_crlf') else 0
    if st.get('preamble'):
        return None
    mk = [['data', (0, 0)]] if not lead else [['data', (0, 0)]]
    for hs, he, ds, de in layout:
        mk.append(['headers', (hs, he)])
        mk.append(['data', (ds, de)])
    return mk


# ---------------------------------------------------------------------------
# field-level encoder (C07 / C12 / C13)
# ---------------------------------------------------------------------------

NAME_ALPHABET = list("abcXYZ019;= \\_-.:,/()[]{}<>@!#$%&'*+^`|~") + ['é', 'ж', '日', '\u00a0', '😀']
TEXT_ALPHABET = list("abc 019\r\n-=;:\"'\\&+%") + ['é', 'ж', '日', '😀', '\t', '\x00', '\x7f']


def gen_name(rng, max_len=24, nonempty=True):
    n = rng.choice([1, 1, 2, 3, 5, 8, max_len]) if nonempty else rng.choice([0, 1, 2, 5])
    s = ''.join(rng.choice(NAME_ALPHABET) for _ in range(n))
    return s


def gen_text(rng, max_len=40):
    n = rng.choice([0, 0, 1, 2, 5, 10, max_len])
    return ''.join(rng.choice(TEXT_ALPHABET) for _ in range(n))


def gen_ctype(rng):
    t = rng.choice(['text/plain', 'application/octet-stream', 'image/png', 'application/x-www-form-urlencoded', 'a/b'])
    if rng.random() < 0.3:
        # (parameters of the part's own media type, incl. ones that look like Content-Disposition parameters)
        t += rng.choice(['; charset=utf-8', '; x=y', '; charset="utf-8"', '; name="other name.pdf"', '; filename=other.bin',
                         '; name=x; filename="y z"'])
    return t


TEXT_CTYPES_NEUTRAL = ['text/plain', 'text/plain; charset=utf-8', 'text/plain; charset="UTF-8"', 'text/plain;charset=UTF-8']
TEXT_CTYPES_HOSTILE = TEXT_CTYPES_NEUTRAL + ['text/plain; charset=klingon', 'text/plain; charset=hex', 'text/plain; charset=',
                                             'text/plain; charset="', 'text/plain; charset=utf-16', 'text/plain; charset=base64',
                                             'text/plain; charset=\x00', 'text/plain; charset=undefined', 'text/plain; charset=idna',
                                             '; charset=rot13', 'text/plain; charset=' + 'x' * 300]


def gen_fields(rng, *, max_fields=8, max_file=400, boundary_hint=None, text_ctypes=None):
    """List of fields: {'name', 'value'} or {'name', 'filename', 'ctype', 'data'(hex)}"""
    n = rng.choice([0, 1, 1, 2, 3, 4, rng.randint(0, max_fields)])
    names = [gen_name(rng) for _ in range(max(1, (n + 1) // 2))]
    out = []
    for _ in range(n):
        name = rng.choice(names) if rng.random() < 0.6 else gen_name(rng)
        if rng.random() < 0.5:
            out.append({'name': name, 'value': gen_text(rng)})
            if text_ctypes and rng.random() < 0.25:
                # a text part that states its own media type (RFC 7578 4.4 / 4.5)
                out[-1]['ctype'] = rng.choice(text_ctypes)
        else:
            out.append({'name': name, 'filename': gen_name(rng), 'ctype': gen_ctype(rng) if rng.random() < 0.8 else None,
                        'data': None, '_max': rng.choice([0, 1, 5, 30, max_file])})
    return out


def field_headers(f):
    cd = f'Content-Disposition: form-data; name="{f["name"]}"'
    if 'filename' in f:
        cd += f'; filename="{f["filename"]}"'
    lines = [cd]
    if f.get('ctype'):
        lines.append('Content-Type: ' + f['ctype'])
    return '\r\n'.join(lines).encode('utf8')


def choose_boundary(rng, blobs, token_only=False):
    """A boundary legal for the given data blobs (CRLF--boundary occurs in none of them)."""
    for _ in range(200):
        b = gen_boundary(rng, token_only)
        d = delim(b)
        if not any(d in blob for blob in blobs):
            return b
    # fall back to something long and unlikely
    b = 'zZ9_' * 10
    assert not any(delim(b) in blob for blob in blobs)
    return b


def encode_fields(fields, boundary, *, tail=b'\r\n'):
    st = {'boundary': boundary, 'lead_crlf': False, 'tail': tail.hex(), 'closed': True, 'parts': []}
    for f in fields:
        data = f['value'].encode('utf8') if 'value' in f else bytes.fromhex(f['data'])
        st['parts'].append({'headers': field_headers(f).hex(), 'data': data.hex()})
    body, layout = build(st)
    return body, layout


def content_type_header(boundary, quoted=None):
    if quoted is None:
        quoted = not is_token(boundary)
    if quoted:
        return f'multipart/form-data; boundary="{boundary}"'
    return f'multipart/form-data; boundary={boundary}'
