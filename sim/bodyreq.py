"""Shared driver of the E-stream family: one request with a simulated body
stream through Ombott.__call__ (real code end to end), handler records what it saw."""
import zlib

from .stream import SimStream, SimHang, temp_seam
from .wsgi import make_environ, call_app, ErrStream
from .sched import no_preempt

_DIRECT = []


def direct_api():
    """The low-level reader the statements of C04 / C05 are anchored in (`body_mixin._body_read`) and the error class of
    the chunked decoder, or None when the code under test does not offer them in the shape the direct level drives
    (a private helper may be renamed or re-shaped at any time: the direct level is then served through WSGI like every
    other run - never an alarm).  Decided once per process by a fault-free probe."""
    if not _DIRECT:
        api = None
        try:
            import io
            from ombott.request_pkg.body_mixin import _body_read
            from ombott.request_pkg.errors import BodyParsingError
            f = _body_read(io.BytesIO(b'ab').read, 4, content_length=2)
            f.seek(0)
            g = _body_read(io.BytesIO(b'1\r\nx\r\n0\r\n\r\n').read, 4, chunked=True)
            g.seek(0)
            if f.read() == b'ab' and g.read() == b'x' and issubclass(BodyParsingError, Exception):
                api = (_body_read, BodyParsingError)
        except Exception:       # noqa
            api = None
        _DIRECT.append(api)
    return _DIRECT[0]


SHARED = {'on': False, 'app': None, 'cfg': None, 'n': 0, 'handlers': {}}


def SHARED_index(path):
    return int(path.rsplit('/', 1)[1])


class Obs:
    __slots__ = ('stream', 'resp', 'seen', 'seam_created', 'hang', 'handler_exc', 'environ', 'via_copy')


def _canon_value(x):
    if isinstance(x, str):
        return x
    if hasattr(x, 'raw_filename'):
        return _canon_upload(x)
    return f'<{type(x).__name__}>'


def _canon_forms(d):
    out = []
    for k, v in d.items():
        out.append([k, _canon_value(v) if not isinstance(v, list) else [_canon_value(x) for x in v]])
    return out


def _ctype_of(upload):
    ct = upload.content_type
    if isinstance(ct, str):
        return ct
    val = getattr(ct, 'value', None)
    if isinstance(val, str):
        return val
    return repr(ct)


def _canon_upload(u):
    f = u.file
    f.seek(0)
    data = f.read()
    return {'name': u.name, 'filename': u.raw_filename, 'ctype': _ctype_of(u), 'data': data}


_canon_files = _canon_forms
_canon_post = _canon_forms


def _seek_probe(req):
    """File-like fidelity of the upload windows: relative and absolute seeks (also beyond both ends) followed by
    reads must agree with the upload's own full content.  Returns a description of the first inconsistency."""
    for key, v in req.files.items():
        for u in (v if isinstance(v, list) else [v]):
            if not hasattr(u, 'raw_filename'):
                continue
            f = u.file
            f.seek(0)
            full = f.read()
            n = len(full)
            for off, whence in ((-(n + 7), 2), (-1, 2), (-n, 2), (0, 2), (-(n + 1), 1), (-2, 1), (3, 0), (-5, 0),
                                (n + 9, 0), (1, 1), (-(2 * n + 3), 2)):
                before = f.tell()
                base = {0: 0, 1: before, 2: n}[whence]
                want = min(max(base + off, 0), n)
                try:
                    got_pos = f.seek(off, whence)
                    data = f.read()
                except Exception as e:   # noqa
                    return f'{key}: seek({off}, {whence}) on a {n}-byte upload raised {type(e).__name__}: {e}'
                if got_pos != want or data != full[want:]:
                    return (f'{key}: after seek({off}, {whence}) on a {n}-byte upload tell()={got_pos} (expected {want}) and '
                            f'read() gives {data[:40]!r}... ({len(data)} bytes), the upload\'s content from there is '
                            f'{full[want:want + 40]!r}... ({n - want} bytes)')
    return None


def _canon_files_round_robin(req, k):
    """Like _canon_files, but the uploads are read k bytes at a time in round-robin order,
    with a read of request.body in between and no explicit seek: each upload is its own
    file-like with its own position, although all of them are windows onto one body."""
    d = req.files
    ups = []
    for key, v in d.items():
        for u in (v if isinstance(v, list) else [v]):
            if hasattr(u, 'raw_filename'):
                u.file.seek(0)
                ups.append([u, bytearray(), False])
    turn = 0
    while any(not done for _, _, done in ups):
        for ent in ups:
            if ent[2]:
                continue
            piece = ent[0].file.read(k)
            if not piece:
                ent[2] = True
            ent[1] += piece
        turn += 1
        if turn % 3 == 1:
            req.body.read(5)
    data = {id(u): bytes(buf) for u, buf, _ in ups}

    def canon(x):
        if hasattr(x, 'raw_filename'):
            return {'name': x.name, 'filename': x.raw_filename, 'ctype': _ctype_of(x), 'data': data[id(x)]}
        return _canon_value(x)
    return [[key, canon(v) if not isinstance(v, list) else [canon(x) for x in v]] for key, v in d.items()]


def body_request(wire, sched, *, B, M=None, cl=None, chunked=False, ctype=None, tempmode='real',
                 touch=('body',), endless=None, max_calls=None, propagate=True, method=None, retry=False, cfgvia=None, stages=None,
                 keep_alive=False, errors_map=None, via_copy=None, foreign_app=False):
    """Serve one request whose body stream is SimStream(wire, sched)."""
    import ombott
    o = Obs()
    stream = SimStream(wire, sched, endless=endless, max_calls=max_calls)
    stream.keep_alive = keep_alive
    o.stream = stream
    seen = o.seen = {}
    o.hang = None
    o.handler_exc = None
    cfg = {'max_memfile_size': B}
    if M is not None:
        cfg['max_body_size'] = M
    te = chunked
    if chunked is True:
        # the spelling of the Transfer-Encoding value is a pure function of the wire as well
        te = ['chunked', 'chunked', 'Chunked', 'gzip, chunked', 'gzip,chunked', ' chunked', 'identity , CHUNKED'][zlib.crc32(bytes(wire[:64])) % 7]
    if errors_map == 'base_only':
        from ombott.request_pkg import errors as rq_errors
        cfg['errors_map'] = {rq_errors.RequestError: ombott.HTTPError(400, 'bad request body')}
    if cfgvia is None:
        # both ways of configuring an application must behave alike; which one a run uses is a pure function of its wire
        cfgvia = ['setup', 'ctor', 'ctor', 'class', 'setup', 'ctor', 'ctor', 'class_setup'][zlib.crc32(bytes(wire[:256])) % 8]

    if method is None:
        # a body is a body whatever the request method (incl. an extension method); which one a run uses is a pure
        # function of its wire
        method = ['POST', 'POST', 'POST', 'POST', 'PUT', 'PATCH', 'DELETE', 'REPORT'][zlib.crc32(bytes(wire[:96]) + b'method') % 8]
    if via_copy is None:
        # an application that works on `request.copy()` from the start (taken before the body was touched) must
        # meet the same limits, thresholds and error mapping; which runs do is a pure function of the wire
        via_copy = zlib.crc32(bytes(wire[:128]) + b'copy') % 6 == 0
    o.via_copy = via_copy
    the_copy = []

    def make_app():
        if foreign_app:
            # another application of the process, configured to answer request errors in its own way: its business only
            from ombott.request_pkg import errors as rq_errors
            ombott.Ombott({'errors_map': {rq_errors.RequestError: ombott.HTTPError(502, 'upstream sent a bad body'),
                                          rq_errors.BodyParsingError: ombott.HTTPError(502, 'upstream sent a bad body'),
                                          rq_errors.BodySizeError: ombott.HTTPError(507, 'upstream sent too much')},
                           'max_body_size': 1, 'max_memfile_size': 1})
        if cfgvia == 'setup':
            a = ombott.Ombott()
            a.setup(dict(cfg))
            return a
        if cfgvia in ('class', 'class_setup'):
            # configuration given as a class derived from the defaults in two steps (limits, then site settings)
            from ombott.ombott import DefaultConfig
            meta = type(DefaultConfig)
            limits = meta('Limits', (DefaultConfig,), {k: v for k, v in cfg.items() if k != 'errors_map'})
            site = meta('Site', (limits,), {k: v for k, v in cfg.items() if k == 'errors_map'} or {'catchall': True})
            if cfgvia == 'class':
                return ombott.Ombott(site)
            a = ombott.Ombott()
            a.setup(site)
            return a
        return ombott.Ombott(cfg)
    path = '/x'
    if SHARED['on']:
        # concurrent twin run: all threads of the run serve through one application
        with no_preempt():
            if SHARED['app'] is None:
                SHARED['app'] = make_app()
                SHARED['cfg'] = (B, M, errors_map, cfgvia)
                SHARED['handlers'] = {}
                # one route for all threads of the run, registered before any of them serves
                # (registering routes while another thread is resolving is not what is under test)
                SHARED['app'].route('/x/<k:int>', method=['GET', 'POST', 'PUT', 'PATCH', 'DELETE', 'REPORT'],
                                    callback=lambda k, _h=SHARED['handlers']: _h[k]())
            elif SHARED['cfg'][:3] != (B, M, errors_map):
                raise AssertionError(f'twin threads disagree on the application config: {SHARED["cfg"]} vs {(B, M, errors_map, cfgvia)}')
            app = SHARED['app']
            SHARED['n'] += 1
            path = '/x/%d' % SHARED['n']
    else:
        app = make_app()
    stages = stages or {}
    with temp_seam(tempmode) as seam:

        def do_op(req, t):
            if t == 'body':
                b = req.body
                seen['body'] = b.read()
                seen['body_type'] = type(b).__name__
                seen['body_spilled'] = seam.owns(b)
                b2 = req.body
                seen['body2'] = b2.read()
                seen['body_same_obj'] = b2 is b
            elif t == 'copy_body':
                # a copy taken after the body was consumed (position at the end) and after a partial read
                cp_body = req.copy().body
                seen['copy_body_spilled'] = seam.owns(cp_body)
                seen['copy_body'] = cp_body.read()
                b = req.body
                b.read(3)
                seen['copy_body_partial'] = req.copy().body.read()
            elif t == 'retype':
                # the application corrects the declared media type after it has looked at the body
                req.body.read(2)
                req['CONTENT_TYPE'] = 'application/x-sim-other'
                seen['body_after_retype'] = req.body.read()
            elif t.startswith('rebind:'):
                # a second body bound to the same request object (e.g. unpacking a batch of sub-requests)
                import io
                b2 = bytes.fromhex(t.split(':', 1)[1])
                req['wsgi.input'] = io.BytesIO(b2)
                seen['forms_rebound'] = _canon_forms(req.forms)
                seen['files_rebound'] = _canon_files(req.files)
            elif t == 'input':
                inp = req.environ['wsgi.input']
                inp.seek(0)
                seen['input'] = inp.read()
            elif t == 'forms':
                seen['forms'] = _canon_forms(req.forms)
            elif t == 'body_quiet':
                req.body.read()
            elif t == 'forms_quiet':
                # an earlier stage (a hook) looks at the form without keeping anything
                req.forms
            elif t == 'files':
                seen['files'] = _canon_files(req.files)
            elif t == 'files_seek':
                seen['seek_problem'] = _seek_probe(req)
            elif t.startswith('files_rr:'):
                seen['files'] = _canon_files_round_robin(req, int(t.split(':')[1]))
            elif t == 'POST':
                seen['POST'] = _canon_post(req.POST)
            elif t == 'json':
                seen['json'] = req.json
            elif t == 'params':
                seen['params'] = _canon_forms(req.params)
            else:
                raise AssertionError(t)

        def run_ops(ops, stage):
            req = app.request
            if via_copy:
                if not the_copy:
                    the_copy.append(req.copy())
                req = the_copy[0]
            try:
                for t in ops:
                    do_op(req, t)
            except SimHang as e:
                o.hang = e
                raise
            except BaseException as e:   # noqa
                if o.handler_exc is None:
                    o.handler_exc = e
                if retry and stage == 'handler' and type(e).__name__ != 'RunTimeout':
                    # an application (or its error handler) that touches the body again after the failure:
                    # the failure must stick, the stream must not be consumed any further
                    seen['retry_calls_before'] = stream.n_calls
                    for _attempt in range(int(retry)):
                        try:
                            seen['retry_body'] = req.body.read()
                            break
                        except SimHang as e2:
                            o.hang = e2
                            raise
                        except BaseException as e2:   # noqa
                            seen['retry_exc'] = e2
                    if 'retry_body' not in seen:
                        # a copy of the request must not resume the half-read stream either
                        try:
                            seen['retry_body'] = req.copy().body.read()
                        except SimHang as e2:
                            o.hang = e2
                            raise
                        except BaseException as e2:   # noqa
                            seen['retry_copy_exc'] = e2
                    seen['retry_calls_after'] = stream.n_calls
                raise

        def handler():
            if stages.get('lazy'):
                # the handler's work happens while the server iterates the response (after _handle returned)
                def gen():
                    run_ops(touch, 'handler')
                    yield 'ok'
                return gen()
            run_ops(touch, 'handler')
            return 'ok'

        if not SHARED['on']:
            if stages.get('before'):
                app.add_hook('before_request', lambda: run_ops(stages['before'], 'before'))
            if stages.get('after'):
                app.add_hook('after_request', lambda: run_ops(stages['after'], 'after'))

        if SHARED['on']:
            SHARED['handlers'][SHARED_index(path)] = handler
        else:
            app.route(path, method=method, callback=handler)
        env = make_environ(method, path, stream=stream, content_length=cl, content_type=ctype,
                           chunked=te, errors=ErrStream())
        o.environ = env
        o.resp = call_app(app, env)
        o.seam_created = seam.created
        # the handler never touches the body after the request: close what was opened
        for e_ in [env] + [r.environ for r in the_copy]:
            wi = e_.get('wsgi.input')
            if wi is not stream and hasattr(wi, 'close'):
                try:
                    wi.close()
                except Exception:
                    pass
    if o.hang is None and isinstance(getattr(o.resp, 'escaped', None), SimHang):
        o.hang = o.resp.escaped
    return o
