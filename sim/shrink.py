"""Minimisation: greedy descent over candidate simplifications proposed by the
property module, while the *same violation class* persists.  Plus generic
candidate generators (ddmin-style) for lists, byte strings and integers."""
import os
import time
import copy


FRESH = {'on': False}      # evaluate every candidate in a process of its own (forked from the 'replay' zygote)


def _child_eval(modname, case):
    from . import core, pristine
    pristine.adopt()
    res = core.run_one(core.load_prop(modname), case)
    res['states'] = set()          # not needed by the caller, can be large
    return res


def _child_setup(modname):
    from . import core
    core.ensure_repo()
    setup = getattr(core.load_prop(modname), 'setup_worker', None)
    if setup:
        setup()


def still_fails(mod, case, cls):
    from . import core
    try:
        if FRESH['on']:
            from . import pristine
            status, res = pristine.call('sim.shrink', '_child_eval', mod.__name__.rsplit('.', 1)[1], case, zygote='replay')
            if status != 'ok':
                if os.environ.get('VERIF_DEBUG'):
                    print('fresh evaluation failed:', status, str(res)[:300])
                return None
        else:
            res = core.run_one(mod, case)      # (with the module's watchdog, if it has one)
    except Exception:
        return None
    for v in res['viol']:
        if v['cls'] == cls:
            return res, v
    return None


def minimise(mod, case, cls, *, budget_s=20.0, max_steps=4000):
    """Returns (min_case, res, viol, steps)."""
    t0 = time.time()
    cur = copy.deepcopy(case)
    got = still_fails(mod, cur, cls)
    if got is None:
        return None
    res, viol = got
    # switch to the explicit form of the trace if the run offers one
    exp = res.get('explicit')
    if exp is not None:
        g = still_fails(mod, exp, cls)
        if g is not None:
            cur, (res, viol) = copy.deepcopy(exp), g
    steps = 0
    cands = getattr(mod, 'shrink_candidates', None)
    if '_prior_runs' in cur:
        # drop earlier cases of the sequence, keep the last (judged) one
        def cands(c):   # noqa
            h = c['_prior_runs']
            for shorter in list_cands(h[:-1], 0):
                yield {'_prior_runs': shorter + [h[-1]]}
    if cands is None:
        return cur, res, viol, 0
    improved = True
    while improved and steps < max_steps and time.time() - t0 < budget_s:
        improved = False
        for cand in cands(cur):
            steps += 1
            if steps >= max_steps or time.time() - t0 > budget_s:
                break
            g = still_fails(mod, cand, cls)
            if g is not None:
                cur, (res, viol) = cand, g
                improved = True
                break
    return cur, res, viol, steps


# ---- candidate generators ---------------------------------------------------

def list_cands(lst, min_len=0):
    """ddmin-style deletions: halves, quarters, ..., single elements."""
    n = len(lst)
    if n <= min_len:
        return
    size = n // 2
    while size >= 1:
        for start in range(0, n, size):
            out = lst[:start] + lst[start + size:]
            if len(out) >= min_len and len(out) < n:
                yield out
        if size == 1:
            break
        size //= 2


def bytes_cands(b, filler=0x61):
    n = len(b)
    if n == 0:
        return
    yield b''
    size = n // 2
    while size >= 1:
        for start in range(0, n, size):
            yield b[:start] + b[start + size:]
        if size <= 1 or n // size > 8:
            break
        size //= 2
    # canonicalise bytes
    f = bytes([filler])
    if b != f * n:
        yield f * n
        for i in range(min(n, 24)):
            if b[i] != filler:
                yield b[:i] + f + b[i + 1:]


def int_cands(v, lo=0, prefer=()):
    seen = set()
    for c in list(prefer) + [lo, v // 2, v - 1]:
        if c is not None and lo <= c < v and c not in seen:
            seen.add(c)
            yield c


def with_key(case, key, value):
    c = copy.deepcopy(case)
    c[key] = value
    return c
