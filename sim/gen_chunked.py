"""Reference client for chunked transfer coding (RFC 7230 4.1): encoder with
explicit structure, region map and fault operators."""

TOKEN_CHARS = "abcxyzABC019!#$%&'*+-.^_`|~"
QD_CHARS = " \tabc;=,:/()<>@[]{}?!#$%&'*+-.^_`|~019"
HEX_BAD_BYTES = [0x30, 0x31, 0x39, 0x61, 0x66, 0x46, 0x67, 0x78, 0x20, 0x3b, 0x0d, 0x0a, 0x2d, 0x2b, 0x5f, 0x00, 0xff, 0x22]


def gen_ext(rng):
    """0-2 chunk extensions: ;name or ;name=token or ;name="quoted"."""
    out = ''
    for _ in range(rng.choice([0, 0, 0, 1, 1, 2])):
        name = ''.join(rng.choice(TOKEN_CHARS) for _ in range(rng.randint(1, 4)))
        r = rng.random()
        if r < 0.3:
            out += ';' + name
        elif r < 0.65:
            val = ''.join(rng.choice(TOKEN_CHARS) for _ in range(rng.randint(1, 4)))
            out += ';' + name + '=' + val
        else:
            val = ''
            for _ in range(rng.randint(0, 5)):
                c = rng.choice(QD_CHARS)
                val += c
            if rng.random() < 0.2:
                val += '\\"'
            out += ';' + name + '="' + val + '"'
    return out


def gen_trailers(rng):
    out = []
    for _ in range(rng.choice([0, 0, 0, 1, 2])):
        name = rng.choice(['X-Trailer', 'Expires', 'X-Sum'])
        val = ''.join(rng.choice('abc 123;=-') for _ in range(rng.randint(0, 8)))
        out.append(f'{name}: {val}'.strip())
    return out


def size_spelling(n, upper, zeros):
    s = '%x' % n
    if upper:
        s = s.upper()
    return '0' * zeros + s


def build(case):
    """-> (wire, regions, end_of_last_line, payload, max_line_len).
    regions: list of (start, end, kind, chunk_index)."""
    out = bytearray()
    regions = []
    payload = bytearray()
    max_line = 0

    def add(b, kind, idx):
        start = len(out)
        out.extend(b)
        if b:
            regions.append((start, len(out), kind, idx))

    for i, ch in enumerate(case['chunks']):
        data = bytes.fromhex(ch['data'])
        assert data, 'non-final chunk must be non-empty'
        sp = size_spelling(len(data), ch.get('upper', False), ch.get('zeros', 0)).encode()
        ext = ch.get('ext', '').encode('latin1')
        add(sp, 'size', i)
        add(ext, 'ext', i)
        add(b'\r\n', 'size_crlf', i)
        max_line = max(max_line, len(sp) + len(ext) + 2)
        add(data, 'data', i)
        add(b'\r\n', 'data_crlf', i)
        payload += data
    last = case.get('last', {})
    sp = ('0' * (1 + last.get('zeros', 0))).encode()
    ext = last.get('ext', '').encode('latin1')
    add(sp, 'last_size', -1)
    add(ext, 'last_ext', -1)
    add(b'\r\n', 'last_crlf', -1)
    max_line = max(max_line, len(sp) + len(ext) + 2)
    end_last = len(out)
    for t in case.get('trailers', []):
        add(t.encode('latin1') + b'\r\n', 'trailer', -1)
    if case.get('final_crlf', True):
        add(b'\r\n', 'final_crlf', -1)
    return bytes(out), regions, end_last, bytes(payload), max_line


def region_at(regions, pos):
    for s, e, kind, idx in regions:
        if s <= pos < e:
            return kind, idx
    return 'end', -1


def to_rel(regions, at):
    for s, e, kind, idx in regions:
        if s <= at < e:
            return [kind, idx, at - s]
    raise ValueError(f'offset {at} outside the encoding')


def from_rel(regions, rel):
    kind, idx, off = rel
    for s, e, k, i in regions:
        if k == kind and i == idx and s + off < e:
            return s + off
    raise ValueError(f'relative position {rel} does not exist in this encoding')


def fault_at(regions, fault):
    return from_rel(regions, fault['rel'])


def apply_fault(wire, regions, fault):
    """-> faulted wire.  Fault kinds:
       truncate{at}; flip{at, byte}; crlf{chunk, variant, byte}
       variants: sub_cr, sub_lf, del_cr, del_lf, ins_before"""
    if not fault:
        return wire
    k = fault['kind']
    if k == 'truncate':
        return wire[:fault_at(regions, fault)]
    if k == 'flip':
        at = fault_at(regions, fault)
        return wire[:at] + bytes([fault['byte']]) + wire[at + 1:]
    if k == 'crlf':
        pos = None
        for s, e, kind, idx in regions:
            if kind == 'data_crlf' and idx == fault['chunk']:
                pos = s
        assert pos is not None
        v = fault['variant']
        b = bytes([fault.get('byte', 0x61)])
        if v == 'sub_cr':
            assert b != b'\r'
            return wire[:pos] + b + wire[pos + 1:]
        if v == 'sub_lf':
            assert b != b'\n'
            return wire[:pos + 1] + b + wire[pos + 2:]
        if v == 'del_cr':
            return wire[:pos] + wire[pos + 1:]
        if v == 'del_lf':
            return wire[:pos + 1] + wire[pos + 2:]
        if v == 'ins_before':
            return wire[:pos] + b + wire[pos:]
        raise AssertionError(v)
    raise AssertionError(k)


CRLF_VARIANTS = [('sub_cr', 0x61), ('sub_cr', 0x0a), ('sub_lf', 0x61), ('sub_lf', 0x0d),
                 ('del_cr', 0), ('del_lf', 0), ('ins_before', 0x61), ('ins_before', 0x0d), ('ins_before', 0x0a)]


def gen_structure(rng, B, *, max_payload=400, max_chunks=8, adv_bytes=None):
    n_chunks = rng.choice([0, 1, 1, 2, 2, 3, 4, rng.randint(0, max_chunks)])
    chunks = []
    budget = max_payload
    for _ in range(n_chunks):
        if budget <= 0:
            break
        cands = [1, 2, 3, max(1, B - 1), B, B + 1, 2 * B + 1, rng.randint(1, 40), 15, 16, 17, 255, 256]
        sz = max(1, min(budget, rng.choice(cands)))
        budget -= sz
        if adv_bytes is not None:
            data = adv_bytes(rng, sz)
        else:
            data = bytes(rng.getrandbits(8) for _ in range(sz))
        chunks.append({'data': data.hex(), 'upper': rng.random() < 0.4,
                       'zeros': rng.choice([0, 0, 0, 0, 1, 3, 7, 15, 16, 17, 33]), 'ext': gen_ext(rng) if rng.random() < 0.35 else ''})
    return {
        'chunks': chunks,
        'last': {'zeros': rng.choice([0, 0, 0, 1, 2, 16, 30]), 'ext': gen_ext(rng) if rng.random() < 0.2 else ''},
        'trailers': gen_trailers(rng),
        'final_crlf': rng.random() < 0.85,
    }
