"""C04 — Content-Length bodies arrive byte-exact under any read fragmentation.

Workload: stream bytes S, declared Content-Length L (absent, 0, below, equal,
above len(S)), buffer/threshold B, delivery schedule.  Faults: short reads,
early EOF (L > len(S)), surplus bytes after the body (L < len(S): a pipelined
request follows).  Oracle: body == S[:L]; bytes handed out by the stream <= L
and no read(n) asks for more than is still owed; rewound and identical on every
access; no hang.
"""
import random

from ..core import new_result, violation, Log, hx, unhx, digest
from ..stream import SimStream, SimHang, gen_schedule, simpler_schedules, temp_seam
from ..bodyreq import body_request, direct_api
from .. import shrink

PROP = 'C04'
LEVEL = 'fault_enumeration'
BATCH = 400
TIERS = {
    'quick': {'runs': 600000, 'budget': 30},
    'thorough': {'runs': 6_000_000, 'budget': 420},
}
RULE = ('seeded runs: (stream bytes, Content-Length, buffer size B, delivery schedule, in-memory/real temp file, '
        'through-WSGI or direct _body_read) drawn from one PRNG per run; sweep units: for fixed small bodies every '
        'early-EOF offset x every single cut position (+ byte-wise, + uncut) x L in {D-1, D, D+2}. A run is '
        'non-trivial when a fault actually fired: a short read with more data following, EOF met before L bytes, '
        'surplus bytes left queued behind the body, or the body crossed the spill threshold. distinct = distinct '
        'case digests among non-trivial runs.')
COMPONENTS = {
    'real': ['ombott (all of it: Ombott.__call__, Request.body, _body_read, _iter_body)', 'tempfile.TemporaryFile (most runs)'],
    'simulated': ['wsgi.input (SimStream)', 'WSGI server (sim.wsgi.call_app)'],
    'stubbed': ['temp file replaced by in-memory MemTemp in a random subset of runs'],
}
ASSUMPTIONS = [
    'wsgi.input obeys the file read(n) contract: 1..n bytes while data remains, b"" at EOF, EOF is permanent',
    'CONTENT_LENGTH, when present, is a non-negative decimal integer (a server guarantees that)',
]

ADV = [b'\r', b'\n', b'-', b'--', b'\r\n', b'0', b'a', b'\x00', b'\xff', b'0\r\n\r\n']
B_CHOICES = [1, 2, 3, 4, 7, 8, 16, 64, 1024, 102400]


def gen_bytes(rng, n):
    if n == 0:
        return b''
    if rng.random() < 0.5:
        return bytes(rng.getrandbits(8) for _ in range(n))
    out = bytearray()
    while len(out) < n:
        out += rng.choice(ADV)
    return bytes(out[:n])


def _gen_case(rng, tier):
    B = rng.choice(B_CHOICES)
    cap = 1500 if tier == 'quick' else 6000
    if tier == 'thorough' and rng.random() < 0.003:
        cap = 330000
    cands = [0, 1, B - 1, B, B + 1, 2 * B, 2 * B + 1, 3 * B + 7, rng.randint(0, 64), rng.randint(0, cap)]
    D = min(cap, max(0, rng.choice(cands)))
    data = gen_bytes(rng, D)
    r = rng.random()
    if r < 0.40:
        L = D
    elif r < 0.55:
        L = max(0, D - rng.randint(1, max(1, D)))
    elif r < 0.75:
        L = D + rng.choice([1, 2, B, rng.randint(1, 100)])
    elif r < 0.85:
        L = 10 * D + 1000
    elif r < 0.92:
        L = 0
    else:
        L = None
    sched = gen_schedule(rng, D, B)
    if D > 20000 and sched['mode'] in ('regular', 'rand', 'cuts'):
        sched = {'mode': 'regular', 'k': rng.choice([B - 1, B, 1000, 4096])}
    ctype = None
    if rng.random() < 0.12:
        # a multipart body with an epilogue behind the closing delimiter: Content-Length covers it, so it belongs to
        # the body like any other byte (the parser that runs alongside the reader must not end the read early)
        from .. import gen_multipart as gm
        fields = [{'kind': 'text', 'name': 'a', 'value': 'v' * rng.choice([0, 1, 5, 40])},
                  {'kind': 'file', 'name': 'f', 'filename': 'x.bin', 'ctype': 'application/octet-stream',
                   'data': (b'z' * rng.choice([0, 3, B, 3 * B + 1 if B < 300 else 50])).hex()}][:rng.choice([1, 2])]
        mp, _ = gm.encode_fields(fields, 'bnd')
        data = mp + rng.choice([b'', b'\r\n', b'\r\nepilogue', b'\r\n' + b'e' * (B + 2 if B < 300 else 9), b'--', b'\r\n--bnd--\r\n'])
        D = len(data)
        L = D if rng.random() < 0.8 else max(0, D - rng.randint(1, 3))
        sched = gen_schedule(rng, D, B)
        ctype = 'multipart/form-data; boundary=bnd'
    case = {
        'S': hx(data), 'L': L, 'B': B, 'sched': sched,
        'temp': 'mem' if rng.random() < 0.3 else 'real',
        'via': 'direct' if rng.random() < 0.2 else 'wsgi',
    }
    if case['via'] == 'wsgi' and rng.random() < 0.15:
        # a configured max_body_size: an over-limit body is refused (413), and even then the stream is
        # never read beyond Content-Length (a pipelined request may follow)
        case['M'] = max(0, rng.choice([0, 1, B, D - 1, D, D // 2, D + 1, 3]))
        case['retry'] = rng.random() < 0.5
    if ctype:
        case['ctype'] = ctype
        case['via'] = 'wsgi'
    if case['via'] == 'wsgi':
        # what else the application does with the request around reading the body (order and stage matter
        # for caches: forms before body, a hook that looked at the form first, a lazily running handler,
        # the media type corrected after a first look)
        small = L is not None and L <= B and (case.get('M') is None or L <= case['M']) and not ctype
        prog = {}
        r = rng.random()
        if small and r < 0.12:
            prog['pre'] = ['forms_quiet']
        elif small and r < 0.2:
            prog['before'] = ['forms_quiet']
        if rng.random() < 0.12:
            prog['post'] = ['retype']
        if rng.random() < 0.1:
            prog['lazy'] = True
        if 'before' not in prog and rng.random() < 0.1:
            # a before-request hook reads the body first; the handler (maybe lazily) reads it again
            prog['before'] = ['body_quiet']
            prog['lazy'] = rng.random() < 0.6
        if prog:
            case['prog'] = prog
    return case


def _sweep_units(tier, root):
    units = []
    Ds = [0, 1, 2, 3, 5, 8, 11] if tier == 'quick' else list(range(0, 18)) + [24, 33]
    Bs = [1, 2, 3, 4, 7] if tier == 'quick' else [1, 2, 3, 4, 5, 7, 8, 16]
    for D in Ds:
        for B in Bs:
            units.append({'D': D, 'B': B, 'seed': (root * 1000003 + D * 131 + B) & 0xffffffff})
    return units


def _expand_unit(u):
    rng = random.Random(u['seed'])
    D, B = u['D'], u['B']
    data = gen_bytes(rng, D)
    via = 'direct' if (D + B) % 3 == 0 else 'wsgi'
    for L in sorted({max(0, D - 1), D, D + 2}):
        for eof in range(0, D + 1):
            S = data[:eof]
            scheds = [{'mode': 'full'}, {'mode': 'regular', 'k': 1}]
            scheds += [{'mode': 'cuts', 'cuts': [c]} for c in range(1, len(S))]
            for sc in scheds:
                yield {'S': hx(S), 'L': L, 'B': B, 'sched': sc, 'temp': 'mem', 'via': via}


def _summarise(case):
    c = dict(case)
    if len(c['S']) > 120:
        c['S'] = c['S'][:120] + f'...({len(case["S"]) // 2} bytes)'
    return c


def _run_case(case):
    res = new_result()
    S = unhx(case['S'])
    L, B = case['L'], case['B']
    log = Log(case.get('_seed'))
    expected = S[:L] if (L is not None and L > 0) else b''
    owed = L if (L is not None and L > 0) else 0
    stream = None
    body = body2 = inp = None
    status = None
    spilled = False
    api = direct_api() if case['via'] == 'direct' else None
    if api is not None:
        _body_read = api[0]
        stream = SimStream(S, case['sched'])
        with temp_seam(case['temp']) as seam:
            try:
                f = _body_read(stream.read, B, content_length=(L if L is not None else -1))
                f.seek(0)
                body = f.read()
                spilled = seam.owns(f)
                f.seek(0)
                body2 = f.read()
            except SimHang as e:
                violation(res, 'C04:hang', f'reader did not terminate: {e}')
            except Exception as e:   # noqa
                violation(res, 'C04:error', f'_body_read raised {type(e).__name__}: {e}')
        log('direct')
    else:
        M = case.get('M')
        prog = case.get('prog') or {}
        touch = tuple(prog.get('pre', [])) + ('body', 'input', 'copy_body') + tuple(prog.get('post', []))
        stages = {k: prog[k] for k in ('before', 'lazy') if k in prog}
        o = body_request(S, case['sched'], B=B, M=M, cl=L, ctype=case.get('ctype'), tempmode=case['temp'],
                         touch=touch, stages=stages,
                         retry=(3 if case.get('retry') else 0))
        stream = o.stream
        status = o.resp.code
        log('status', o.resp.status)
        over_limit = M is not None and len(expected) > M
        if over_limit:
            res['probes']['over_max_body_size'] += 1
        if o.hang is not None:
            violation(res, 'C04:hang', f'reader did not terminate: {o.hang}')
        elif over_limit and o.resp.escaped is None and status == 413:
            # refused as configured; the read accounting below still applies
            if 'retry_body' in o.seen:
                violation(res, 'C04:refused-body-readable-on-retry',
                          f'a body refused with 413 was handed out ({len(o.seen["retry_body"])} bytes) on the second access')
            if case.get('retry'):
                res['fired']['body_touched_again_after_413'] += 1
        elif o.resp.escaped is not None or status != 200:
            exc = o.handler_exc
            violation(res, 'C04:error',
                      f'legal request answered {o.resp.status!r} (handler exception: {type(exc).__name__ if exc else None}: {exc})')
        else:
            body, body2, inp = o.seen.get('body'), o.seen.get('body2'), o.seen.get('input')
            spilled = o.seen.get('body_spilled')
    for n, k, pos in stream.calls:
        log('read', n, k, pos)
    log('body', None if body is None else digest(body))
    if body is not None:
        if body != expected:
            violation(res, 'C04:body-mismatch',
                      f'body has {len(body)} bytes, expected {len(expected)} (first difference at '
                      f'{_first_diff(body, expected)}); short reads fired: {stream.n_short}',
                      got=hx(body[:64]), expected=hx(expected[:64]))
        if body2 != body:
            violation(res, 'C04:reaccess-differs', 'second access of Request.body returned different bytes')
        if api is None and 'body_after_retype' in o.seen and status == 200 \
                and o.seen['body_after_retype'] != expected:
            violation(res, 'C04:body-differs-after-retype',
                      f'after request["CONTENT_TYPE"] was changed, Request.body has {len(o.seen["body_after_retype"])} '
                      f'bytes, the body has {len(expected)}')
        for k2 in ('copy_body', 'copy_body_partial'):
            if api is None and status == 200 and o.seen.get(k2) != expected:
                violation(res, 'C04:copy-body-differs',
                          f'request.copy().body ({k2}: taken after the original body was read) has '
                          f'{len(o.seen.get(k2) or b"")} bytes, the body has {len(expected)}')
                break
        if inp is not None and inp != body:
            violation(res, 'C04:input-not-replaced', "environ['wsgi.input'] does not hold the buffered body")
    if stream.consumed > owed:
        violation(res, 'C04:overread', f'stream handed out {stream.consumed} bytes, Content-Length owed {owed}')
    over = stream.max_overrequest(owed)
    if over > 0 and not res['viol']:
        violation(res, 'C04:overrequest', f'a read asked for {over} bytes more than Content-Length still owed')
    if stream.protocol:
        violation(res, 'C04:unbounded-read', f'reader used {stream.protocol[0][0]} at offset {stream.protocol[0][1]}')
    # ---- fired faults / reach probes ----
    f = res['fired']
    if stream.n_short:
        f['short_read'] += 1
    if owed > len(S) and stream.hit_eof:
        f['early_eof'] += 1
    if owed < len(S) and stream.consumed >= owed and owed > 0:
        f['surplus_left_queued'] += 1
    if spilled:
        f['spilled_to_temp'] += 1
        res['probes']['spill:' + case['temp']] += 1
    if L is None:
        res['probes']['no_content_length'] += 1
    res['probes']['via:' + case['via']] += 1
    res['probes']['sched:' + case['sched']['mode']] += 1
    res['steps'] = stream.n_calls
    res['nontrivial'] = bool(f)
    res['digest'] = log.digest()
    if case['sched']['mode'] in ('rand', 'regular'):
        exp = dict(case)
        exp['sched'] = {'mode': 'script', 'sizes': stream.sizes_script()}
        res['explicit'] = exp
    return res


def _first_diff(a, b):
    for i, (x, y) in enumerate(zip(a, b)):
        if x != y:
            return i
    return min(len(a), len(b))


def _shrink_candidates(case):
    S = unhx(case['S'])
    for s in shrink.bytes_cands(S):
        c = dict(case)
        c['S'] = hx(s)
        if case['L'] is not None and case['L'] == len(S):
            c['L'] = len(s)
        yield c
    for sc in simpler_schedules(case['sched']):
        yield shrink.with_key(case, 'sched', sc)
    if case.get('M') is not None:
        c = dict(case)
        c.pop('M')
        yield c
    if case.get('prog'):
        c = dict(case)
        c.pop('prog')
        yield c
        for k in list(case['prog']):
            c = dict(case)
            c['prog'] = {k2: v for k2, v in case['prog'].items() if k2 != k}
            yield c
    if case['L'] is not None:
        for v in shrink.int_cands(case['L'], 0, prefer=[len(S)]):
            yield shrink.with_key(case, 'L', v)
    for b in (4, 2, 1, 8):
        if b < case['B']:
            yield shrink.with_key(case, 'B', b)
    if case['temp'] != 'mem':
        yield shrink.with_key(case, 'temp', 'mem')
    if case['via'] != 'direct':
        yield shrink.with_key(case, 'via', 'direct')


# ---- concurrent twin runs (sim.twin): a share of the seeded cases is served by 2-3 threads at once --------
from .. import twin as _twin   # noqa: E402

TWIN_SHARE = 0.06


def gen_case(rng, tier):
    return _twin.maybe_wrap(rng, _gen_case(rng, tier), TWIN_SHARE, gen_other=lambda r: _gen_case(r, tier),
                            ok=lambda c: len(c['S']) <= 12000 and not (c.get('prog') or {}).get('before'))


def run_case(case):
    if 'twin' in case:
        return _twin.run(lambda inner, i: _run_case(inner), case)
    return _run_case(case)


def shrink_candidates(case):
    if 'twin' in case:
        yield from _twin.shrink_candidates(case, _shrink_candidates)
        return
    yield from _shrink_candidates(case)


def summarise(case):
    if 'twin' in case:
        return {'twin_of': _summarise(case["twin"]), 'threads': case.get('n', 2), 'plan': case['plan']}
    return _summarise(case)


def setup_worker():
    _twin.warm(_gen_case, _run_case)


TWIN_SWEEPS = {'quick': 10, 'thorough': 200}


def sweep_units(tier, root):
    units = _sweep_units(tier, root)
    # exhaustive single pre-emption over small cases: one unit = one case x every traced step of its solo run
    units += [{'twin_sweep': i, 'seed': (root * 2654435761 + i * 40503) & 0xffffffff} for i in range(TWIN_SWEEPS[tier])]
    return units


def expand_unit(u):
    if 'twin_sweep' not in u:
        yield from _expand_unit(u)
        return
    import random as _random
    rng = _random.Random(u['seed'])
    for _ in range(50):
        inner = _gen_case(rng, 'quick')
        if len(repr(inner)) < 1500:
            break
    yield from _twin.sweep(lambda c, i: _run_case(c), inner)
