"""C10 — application objects in one process are independent of each other.

E-hist (+ E-sched for the multi-thread arrangements).  An *arrangement program*
is drawn from the seed: 2-3 applications (one of them optionally the
module-level default application), a top-level sequence of requests, and for
each request a list of "foreign operations" its handler performs between
reading its own request and writing its own response: a nested WSGI call into
another application (whose handler may nest further), Request.copy() with and
without mutating the copy, bare Request(...) / Response() construction,
constructing a further Ombott() (and serving a request through it).

Oracle (harness-side model, independent of the objects under test): every read
of app.request.* / app.response.* made by a handler before and after each
foreign operation must show that request's own markers / the values the handler
itself wrote, and the final WSGI response of every call must be exactly the one
the program prescribes for it (= the response the same request gets when served
alone).  The handler finds its program through the harness' own call stack, not
through the objects under test.

The scheduled variant runs the same per-application programs on 2-3 real
threads under the deterministic scheduler (sim.sched): which thread runs is
decided at every traced line from the run seed and replayed from an explicit
switch list.
"""
import random
import threading

from ..core import new_result, violation, Log, digest, HarnessError
from ..wsgi import make_environ, call_app
from .. import shrink

PROP = 'C10'
LEVEL = 'exploration'
BATCH = 200
TIERS = {
    'quick': {'runs': 200000, 'budget': 45},
    'thorough': {'runs': 20_000_000, 'budget': 480},
}
RULE = ('seeded arrangement programs: 2-3 applications (default app included in about half of the runs) x a top-level '
        'sequence of 1-4 requests x per-request foreign operations (nested call into another application up to depth 3, '
        'Request.copy(), mutated copy, bare Request()/Response(), Ombott() constructed and optionally serving) placed '
        'between the handler\'s reads and writes; in the scheduled variant the programs run on 2-3 real threads under '
        'the deterministic scheduler. A run is non-trivial when at least one foreign operation executed while another '
        'application\'s request was in flight (or, scheduled, at least one switch landed while two requests were in '
        'flight). distinct = distinct program digests (+ switch lists) among non-trivial runs.')
COMPONENTS = {
    'real': ['ombott (Ombott.__call__, Request, Response, ts_props, HeaderDict, Request.copy, Globals/default_app)',
             'threading.local', 'real threads (scheduled variant)'],
    'simulated': ['WSGI server (sim.wsgi.call_app)', 'thread scheduler (sim.sched: baton passing at sys.settrace line events)'],
    'stubbed': [],
}
ASSUMPTIONS = [
    'handlers reach their own program through the harness call stack (per thread), never through the objects under test',
    'a handler only uses the public request/response API of its own application plus the listed foreign operations',
]

OPS = ['nest', 'nest', 'copy', 'copy_mutate', 'new_request', 'new_response', 'new_app', 'new_app_serve', 'new_app_custom_errors',
       'new_app_from_config']
STATUS_CHOICES = [200, 201, 202, 203, 206, 299, 299, '299 Custom phrase', 298, '298 Another phrase']

_TL = threading.local()      # harness-side per-thread call stack and findings


def _stack():
    st = getattr(_TL, 'stack', None)
    if st is None:
        st = _TL.stack = []
    return st


class Ctx:
    """Per-run context shared by all handlers."""
    def __init__(self):
        self.apps = []
        self.problems = []      # (cls, msg)
        self.foreign_in_flight = 0
        self.events = []
        self.limits = {}        # application index -> (max_body_size, max_memfile_size) it was constructed with

    def problem(self, cls, msg):
        self.problems.append((cls, msg))


_CTX = None


def set_ctx(ctx):
    global _CTX
    _CTX = ctx


def expected_reads(call):
    m = call['m']
    return {
        'path': path_of(call),
        'method': 'POST' if call.get('bad') else 'GET',
        'query_m': 'q' + m,
        'query_string': 'm=q' + m,
        'hdr': 'h' + m,
        'cookie': 'shared-cookie' if call.get('static') else 'c' + m,
        'url_arg': None if call.get('static') else m,
        'url': 'http://sim.test' + path_of(call) + '?m=q' + m,
        'fullpath': path_of(call),
        'script_name': '/',
        'cfg_limits': (None, 102400, ''),
        'ext': 'g' + m,
    }


def read_request(app, env):
    rq = app.request
    out = {}
    out['path'] = rq.path
    out['method'] = rq.method
    out['query_m'] = rq.query.get('m')
    out['query_string'] = rq.query_string
    out['hdr'] = rq.headers.get('X-M')
    out['cookie'] = rq.cookies.get('c')
    out['url_arg'] = rq.url_args.get('m')
    out['environ_is_own'] = rq.environ is env
    out['app_is_own'] = rq.app is app
    out['url'] = rq.url
    out['fullpath'] = rq.fullpath
    out['script_name'] = rq.script_name
    out['cfg_limits'] = (rq.config.max_body_size, rq.config.max_memfile_size, rq.config.app_name_header)
    out['ext'] = getattr(rq, 'tag', None)       # a user-defined attribute parked on the request by its own handler
    return out


def check_reads(ctx, call, app, env, when):
    try:
        got = read_request(app, env)
    except Exception as e:   # noqa
        ctx.problem('C10:request-read-error', f'{call["m"]} {when}: reading app.request raised {type(e).__name__}: {e}')
        return
    exp = expected_reads(call)
    exp['environ_is_own'] = True
    exp['app_is_own'] = True
    if call['app'] in ctx.limits:
        exp['cfg_limits'] = ctx.limits[call['app']] + ('',)
    for k, v in exp.items():
        if got.get(k) != v:
            ctx.problem('C10:foreign-request-visible',
                        f'request {call["m"]} (app {call["app"]}) {when}: request.{k} shows {got.get(k)!r}, own value is {v!r}')
            return


def write_response(app, call):
    rs = app.response
    m = call['m']
    rs.status = call['status']
    rs.headers['X-R'] = 'r' + m
    rs.set_cookie('rc', 'k' + m)
    rs.content_type = 'text/plain; charset=UTF-8'


def check_response(ctx, call, app, when):
    rs = app.response
    m = call['m']
    try:
        got = {
            'status_code': rs.status_code,
            'x_r': rs.headers.get('X-R'),
            'cookie': rs._cookies['rc'].value if rs._cookies and 'rc' in rs._cookies else None,
            'ctype': rs.content_type,
            'n_headers': len(rs.headers),
        }
    except Exception as e:   # noqa
        ctx.problem('C10:response-read-error', f'{m} {when}: reading app.response raised {type(e).__name__}: {e}')
        return
    exp = {'status_code': int(str(call['status']).split()[0]), 'x_r': 'r' + m, 'cookie': 'k' + m, 'ctype': 'text/plain; charset=UTF-8',
           'n_headers': 3}
    for k, v in exp.items():
        if got[k] != v:
            ctx.problem('C10:foreign-response-visible',
                        f'request {m} (app {call["app"]}) {when}: response.{k} shows {got[k]!r}, the handler wrote {v!r}')
            return


def path_of(call):
    return '/s' if call.get('static') else '/r/' + call['m']


def environ_for(call):
    m = call['m']
    if call.get('static'):
        # the Cookie header of these requests is byte-identical for every request and every application
        return make_environ('GET', '/s', 'm=q' + m, {'X-M': 'h' + m, 'Cookie': 'c=shared-cookie'})
    if call.get('bad'):
        # malformed chunked body: reading it raises the process-wide errors_map response (400)
        import io
        return make_environ('POST', '/r/' + m, 'm=q' + m, {'X-M': 'h' + m, 'Cookie': 'c=c' + m},
                            stream=io.BytesIO(b'zz\r\n' + m.encode()), chunked=True)
    return make_environ('GET', '/r/' + m, 'm=q' + m, {'X-M': 'h' + m, 'Cookie': 'c=c' + m})


def serve(ctx, call):
    """Serve one call (top-level or nested) and check its final WSGI response."""
    app = ctx.apps[call['app']]
    env = environ_for(call)
    st = _stack()
    st.append((call, env))
    try:
        r = call_app(app, env)
    finally:
        st.pop()
    m = call['m']
    exp_status = call['status']
    problems = []
    if r.escaped is not None:
        problems.append(f'exception escaped: {type(r.escaped).__name__}: {r.escaped}')
    elif call.get('bad'):
        body = ('bad-' + m).encode()
        if r.code != 400:
            problems.append(f'status {r.status!r}, expected 400')
        if r.body != body:
            problems.append(f'body {r.body[:80]!r}, expected {body!r}')
        if r.header('X-E') != 'e' + m:
            problems.append(f'X-E header {r.header("X-E")!r}, expected {"e" + m!r}')
        if r.header('Content-Length') != str(len(r.body)):
            problems.append(f'Content-Length {r.header("Content-Length")!r} for {len(r.body)} body bytes')
        names = sorted(k for k, _ in r.headers)
        if names != ['Content-Length', 'Content-Type', 'X-E']:
            problems.append(f'header names {names}')
        if r.header('Content-Type') != 'text/html; charset=UTF-8':
            problems.append(f'Content-Type {r.header("Content-Type")!r}')
    else:
        exp_line = exp_status if isinstance(exp_status, str) else {200: '200 OK', 201: '201 Created', 202: '202 Accepted',
                                                                     203: '203 Non-Authoritative Information',
                                                                     206: '206 Partial Content'}.get(exp_status, f'{exp_status} Unknown')
        if r.status != exp_line:
            problems.append(f'status line {r.status!r}, expected {exp_line!r}')
        if r.header('X-R') != 'r' + m:
            problems.append(f'X-R header {r.header("X-R")!r}, expected {"r" + m!r}')
        cookies = r.header_all('Set-Cookie')
        if cookies != ['rc=k' + m]:
            problems.append(f'Set-Cookie {cookies!r}, expected {["rc=k" + m]!r}')
        if r.body != ('body-' + m).encode():
            problems.append(f'body {r.body[:80]!r}, expected {("body-" + m).encode()!r}')
        names = sorted(k for k, _ in r.headers)
        if names != ['Content-Length', 'Content-Type', 'Set-Cookie', 'X-H', 'X-R']:
            problems.append(f'header names {names}')
        if r.header('X-H') != 'h' + m:
            problems.append(f'X-H header (set by the application\'s own before_request hook) {r.header("X-H")!r}')
    if problems:
        ctx.problem('C10:wrong-response', f'request {m} (app {call["app"]}): ' + '; '.join(problems)
                    + (f' [wsgi.errors: {r.errors_text[-300:]!r}]' if r.errors_text else ''))
    return r


def do_op(ctx, call, op, app, env):
    import ombott
    kind = op[0]
    st = _stack()
    if len(st) >= 1:
        ctx.foreign_in_flight += 1
    if kind == 'nest':
        serve(ctx, op[1])
    elif kind == 'copy':
        cp = app.request.copy()
        if cp.path != path_of(call) or cp.query.get('m') != 'q' + call['m']:
            ctx.problem('C10:copy-wrong', f'request {call["m"]}: copy shows path {cp.path!r}')
        own = ctx.limits.get(call['app'], (None, 102400))
        if (cp.config.max_body_size, cp.config.max_memfile_size) != own:
            ctx.problem('C10:copy-wrong', f'request {call["m"]} (app {call["app"]}): the copy is configured with the limits '
                        f'{(cp.config.max_body_size, cp.config.max_memfile_size)!r}, the application with {own!r}')
    elif kind == 'copy_mutate':
        cp = app.request.copy()
        cp['PATH_INFO'] = '/mutated'
        cp['QUERY_STRING'] = 'm=mutated'
        cp['HTTP_X_M'] = 'mutated'
        cp.tag = 'mutated'
        if cp.path != '/mutated':
            ctx.problem('C10:copy-wrong', f'request {call["m"]}: mutated copy shows path {cp.path!r}')
    elif kind == 'new_request':
        other = make_environ('GET', '/other', 'm=other', {'X-M': 'other', 'Cookie': 'c=other'})
        rq = ombott.Request(other)
        if rq.path != '/other':
            ctx.problem('C10:copy-wrong', f'bare Request shows path {rq.path!r}')
    elif kind == 'new_response':
        rs = ombott.Response()       # (Response(body, status, ...) with arguments raises TypeError in __new__: not C10's business)
        rs.status = 404
        rs.body = 'other-body'
        rs.headers['X-R'] = 'other'
        rs.set_cookie('rc', 'other')
        if rs.status_code != 404:
            ctx.problem('C10:copy-wrong', f'bare Response shows status {rs.status_code!r}')
    elif kind == 'new_app':
        ombott.Ombott()
    elif kind == 'new_app_from_config':
        # a further application built from this application's configuration object and then configured differently
        sib = ombott.Ombott(app.config)
        # the sibling's own configuration objects, changed in place
        sib.request.config.max_body_size = 4
        sib.request.config.allow_x_script_name = True
        sib.config.app_name_header = 'HTTP_X_APP'
        sib.config.max_memfile_size = 3
        sib.setup({'max_body_size': 1, 'max_memfile_size': 1, 'app_name_header': 'HTTP_X_APP', 'allow_x_script_name': True})
        sib.config.max_body_size = 0
    elif kind == 'new_app_custom_errors':
        # a further application with its own error mapping: must not change how the others answer a bad body
        from ombott.request_pkg import errors as rq_errors
        ombott.Ombott({'errors_map': {rq_errors.RequestError: ombott.HTTPError(422, 'custom mapping'),
                                      rq_errors.BodyParsingError: ombott.HTTPError(422, 'custom mapping')}})
    elif kind == 'new_app_serve':
        extra = ombott.Ombott()
        install(ctx, extra, len(ctx.apps))
        ctx.apps.append(extra)
        sub = dict(op[1])
        sub['app'] = len(ctx.apps) - 1
        serve(ctx, sub)
    else:
        raise HarnessError(f'unknown op {op}')


def make_handler(ctx, app):
    def handler(m=None, **unexpected):
        st = _stack()
        if not st:
            ctx.problem('C10:harness', 'handler entered without a harness stack entry')
            return 'x'
        call, env = st[-1]
        if call.get('static'):
            # a route without parameters: no URL arguments exist for this request
            try:
                ua = dict(app.request.url_args)
            except Exception as e:   # noqa
                ua = {'<error>': repr(e)}
            if m is not None or unexpected or ua:
                ctx.problem('C10:foreign-request-visible',
                            f'request {call["m"]} (app {call["app"]}, static route) was given URL arguments '
                            f'{dict(unexpected, **({"m": m} if m is not None else {}))} / url_args {ua}')
            m = call['m']
            try:
                ck = sorted(app.request.cookies.items())
                if ck != [('c', 'shared-cookie')]:
                    ctx.problem('C10:foreign-request-visible',
                                f'request {call["m"]} (app {call["app"]}): request.cookies shows {ck} on entry, the request sent c=shared-cookie only')
                app.request.cookies['who'] = call['m']      # the parsed cookies belong to this request
            except Exception as e:   # noqa
                ctx.problem('C10:request-read-error', f'{call["m"]}: request.cookies: {type(e).__name__}: {e}')
            try:
                app.request.url_args['who'] = call['m']     # e.g. a value passed on for later stages of this request
            except Exception as e:   # noqa
                ctx.problem('C10:request-read-error', f'{call["m"]}: writing request.url_args raised {type(e).__name__}: {e}')
        if ctx.apps[call['app']] is not app:
            ctx.problem('C10:wrong-app-entered', f'request {call["m"]} for app {call["app"]} entered another application\'s handler')
        if m != call['m']:
            ctx.problem('C10:foreign-request-visible', f'request {call["m"]}: url argument {m!r}')
        try:
            parked = getattr(app.request, 'tag', None)
            if parked is not None:
                ctx.problem('C10:foreign-request-visible',
                            f'request {call["m"]} (app {call["app"]}) finds the attribute tag={parked!r} on its request on entry; '
                            f'nothing was parked on this request yet')
            app.request.tag = 'g' + call['m']
        except Exception as e:   # noqa
            ctx.problem('C10:request-read-error', f'{call["m"]}: user-defined request attribute: {type(e).__name__}: {e}')
        check_reads(ctx, call, app, env, 'on entry')
        if call.get('bad'):
            for i, op in enumerate(call['ops']):
                do_op(ctx, call, op, app, env)
                check_reads(ctx, call, app, env, f'after op {i} {op[0]}')
            app.request.body.read()      # raises the mapped 400
            ctx.problem('C10:harness', f'request {call["m"]}: malformed body was accepted')
            return 'x'
        wrote = False
        ops = call['ops']
        w_at = call.get('write_at', 0)
        for i, op in enumerate(ops):
            if i == w_at:
                write_response(app, call)
                wrote = True
            do_op(ctx, call, op, app, env)
            check_reads(ctx, call, app, env, f'after op {i} {op[0]}')
            if wrote:
                check_response(ctx, call, app, f'after op {i} {op[0]}')
        if not wrote:
            write_response(app, call)
        check_response(ctx, call, app, 'before returning')
        return 'body-' + call['m']
    return handler


def make_error_handler(ctx, app):
    def on400(err):
        st = _stack()
        call, env = st[-1]
        m = call['m']
        check_reads_bad(ctx, call, app, env)
        try:
            seen = sorted(app.response.headers.keys())
        except Exception as e:   # noqa
            ctx.problem('C10:response-read-error', f'{m}: reading app.response.headers raised {type(e).__name__}: {e}')
            seen = []
        if seen:
            ctx.problem('C10:foreign-response-visible',
                        f'request {m} (app {call["app"]}): its 400 handler finds response headers {seen} that neither it nor '
                        f'the framework set for this request')
        app.response.headers['X-E'] = 'e' + m
        return 'bad-' + m
    return on400


def check_reads_bad(ctx, call, app, env):
    rq = app.request
    try:
        got = (rq.path, rq.query.get('m'), rq.headers.get('X-M'), rq.environ is env, getattr(rq, 'tag', None))
    except Exception as e:   # noqa
        ctx.problem('C10:request-read-error', f'{call["m"]} in error handler: {type(e).__name__}: {e}')
        return
    m = call['m']
    if got != ('/r/' + m, 'q' + m, 'h' + m, True, 'g' + m):
        ctx.problem('C10:foreign-request-visible', f'request {m} (app {call["app"]}) in its 400 handler sees {got!r}')


def install(ctx, app, idx):
    h = make_handler(ctx, app)
    app.add_route('/r/<m>', ['GET', 'POST'], h, overwrite=True)
    app.add_route('/s', ['GET'], h, overwrite=True)
    app.error(400)(make_error_handler(ctx, app))
    if not getattr(app, '_sim_hooks', False):
        # once per application object (the default application outlives the run); the hooks find the
        # current run through the module-level context
        app._sim_hooks = True

        def before():
            _hook(app, 'before')

        def after():
            _hook(app, 'after')
        app.add_hook('before_request', before)
        app.add_hook('after_request', after)


def _hook(app, which):
    ctx = _CTX
    st = _stack()
    if ctx is None or not st:
        return
    call, env = st[-1]
    if call['app'] >= len(ctx.apps) or ctx.apps[call['app']] is not app:
        ctx.problem('C10:foreign-hook-ran',
                    f'a {which}_request hook registered on another application ran while request {call["m"]} of app '
                    f'{call["app"]} was being served')
        return
    if which == 'before':
        try:
            app.response.headers['X-H'] = 'h' + call['m']
        except Exception as e:   # noqa
            ctx.problem('C10:response-read-error', f'{call["m"]} before-hook: {type(e).__name__}: {e}')


# ---- generation ------------------------------------------------------------------------------

def gen_call(rng, n_apps, depth, counter, in_flight=()):
    """A nested call never targets an application that is already serving further up the
    same stack: re-entering the *same* application is not what C10 speaks about."""
    counter[0] += 1
    m = 'M%d' % counter[0]
    free = [a for a in range(n_apps) if a not in in_flight]
    app = rng.choice(free)
    n_ops = rng.choice([0, 1, 1, 2, 3]) if depth < 3 else rng.choice([0, 1])
    ops = []
    for _ in range(n_ops):
        k = rng.choice(OPS)
        if k == 'nest':
            if len(free) < 2 or depth >= 3:
                continue
            ops.append(['nest', gen_call(rng, n_apps, depth + 1, counter, tuple(in_flight) + (app,))])
        elif k == 'new_app_serve':
            counter[0] += 1
            ops.append(['new_app_serve', {'app': -1, 'm': 'M%d' % counter[0], 'status': rng.choice(STATUS_CHOICES),
                                          'ops': [], 'write_at': 0}])
        else:
            ops.append([k])
    call = {'app': app, 'm': m, 'status': rng.choice(STATUS_CHOICES), 'ops': ops,
            'write_at': rng.randrange(len(ops) + 1) if ops else 0}
    if rng.random() < 0.2:
        call['bad'] = True       # the request's body is malformed: answered through the shared errors_map response
    elif rng.random() < 0.2:
        call['static'] = True    # served by a route without URL parameters
    return call


def gen_case(rng, tier):
    if rng.random() < 0.12:
        from . import c10_sched
        return c10_sched.gen_case(rng, tier)
    n_apps = rng.choice([2, 2, 3])
    counter = [0]
    top = [gen_call(rng, n_apps, 1, counter) for _ in range(rng.randint(1, 4))]
    return {'n_apps': n_apps, 'default_at': rng.choice([None, 0, 1]) if True else None, 'top': top,
            'construct_order': rng.choice(['fwd', 'rev']), 'own_cfg': rng.random() < 0.5}


# ---- sweep units: two applications on two threads, thread 0 pre-empted exactly once at every step of its solo run ------
_SWEEP_PROGS = [
    # (ops of thread 0 / application 0, ops of thread 1 / application 1)
    ([['copy'], ['copy'], ['copy']], [['copy']]),
    ([['copy'], ['copy_mutate'], ['copy']], [['new_app'], ['copy']]),
    ([['copy'], ['copy']], [['new_app_from_config']]),
    ([['new_request'], ['new_response'], ['copy']], [['new_app_custom_errors'], ['copy_mutate']]),
    ([['new_app'], ['copy']], [['copy'], ['copy']]),
]


def sweep_units(tier, root):
    rng = random.Random(root ^ 0xC10)
    units = []
    for k, (a, b) in enumerate(_SWEEP_PROGS):
        for own in ((True,) if tier == 'quick' else (True, False)):
            for kind in (('plain',) if tier == 'quick' and k else ('plain', 'static', 'bad')):
                units.append({'a': a, 'b': b, 'own_cfg': own, 'kind': kind, 'default_at': None})
    if tier != 'quick':
        for _ in range(40):
            counter = [0]
            ca, cb = gen_call(rng, 2, 2, counter), gen_call(rng, 2, 2, counter)
            ca['app'], cb['app'] = 0, 1
            for c in (ca, cb):
                c['ops'] = [op for op in c['ops'] if op[0] not in ('nest',)]
                c['write_at'] = min(c['write_at'], len(c['ops']))
            units.append({'calls': [ca, cb], 'own_cfg': rng.random() < 0.7, 'default_at': rng.choice([None, None, 0, 1])})
    return units


def expand_unit(u):
    from . import c10_sched
    if 'calls' in u:
        calls = u['calls']
    else:
        calls = []
        for i, ops in enumerate((u['a'], u['b'])):
            c = {'app': i, 'm': 'M%d' % (i + 1), 'status': [200, 201][i], 'ops': ops, 'write_at': len(ops) // 2}
            if u['kind'] != 'plain':
                c[u['kind']] = True
            calls.append(c)
    base = {'n_apps': 2, 'default_at': u.get('default_at'), 'construct_order': 'fwd', 'gran': 'line', 'own_cfg': u['own_cfg']}
    solo = c10_sched.run_case(dict(base, threads=[calls[0]], plan={'mode': 'explicit', 'first': 0, 'switches': []}))
    for s in range(1, solo['steps'] + 1):
        yield dict(base, threads=calls, plan={'mode': 'explicit', 'first': 0, 'switches': [[s, 1]]})


def summarise(case):
    return case


def flush_process_state():
    """One well-formed request with a fixed query string / cookie through a scratch application: overwrites
    whatever an earlier run of this process may have left in process-wide scratch state, so that a run's
    observations are caused by the run itself."""
    import ombott
    app = ombott.Ombott()
    app.add_route('/f/<m>', 'GET', lambda m: 'flush')
    call_app(app, make_environ('GET', '/f/x', 'm=flush&n=1', {'X-M': 'flush', 'Cookie': 'c=flush'}))


def setup_worker():
    """Warm regime: the module-level default application lives as long as the process, so its
    lazily created state (cached_property _hooks, its route) must be in steady state before the
    first run, or the number of traced steps of a scheduled run would depend on whether an
    earlier run of the same worker already used it."""
    import ombott
    ctx = Ctx()
    set_ctx(ctx)
    del _stack()[:]
    ctx.apps = [ombott.default_app(), ombott.Ombott()]
    for i, a in enumerate(ctx.apps):
        install(ctx, a, i)
    for i in (0, 1):
        serve(ctx, {'app': i, 'm': 'W%d' % i, 'status': 200, 'ops': [['copy']], 'write_at': 0})
    # problems met here are not reported: the seeded runs that follow will meet and report them with a replay file


def build_apps(ctx, case):
    import ombott
    n = case['n_apps']
    apps = [None] * n
    order = list(range(n)) if case.get('construct_order', 'fwd') == 'fwd' else list(range(n - 1, -1, -1))
    for i in order:
        if case.get('default_at') == i:
            apps[i] = ombott.default_app()
        elif case.get('own_cfg'):
            # applications that differ in their request configuration
            ctx.limits[i] = (5000 + i, 3000 + i)
            apps[i] = ombott.Ombott({'max_body_size': 5000 + i, 'max_memfile_size': 3000 + i})
        else:
            apps[i] = ombott.Ombott()
    ctx.apps = apps
    for i, a in enumerate(apps):
        install(ctx, a, i)


def count_ops(call):
    n = 0
    for op in call['ops']:
        n += 1
        if op[0] in ('nest', 'new_app_serve'):
            n += count_ops(op[1])
    return n


def run_case(case):
    if case.get('threads'):
        from . import c10_sched
        return c10_sched.run_case(case)
    res = new_result()
    log = Log(case.get('_seed'))
    ctx = Ctx()
    set_ctx(ctx)
    del _stack()[:]
    flush_process_state()
    build_apps(ctx, case)
    for call in case['top']:
        r = serve(ctx, call)
        log('top', call['m'], call['app'], r.status, digest(r.canon()))
    seen = set()
    for cls, msg in ctx.problems:
        if cls not in seen:
            seen.add(cls)
            violation(res, cls, msg)
        log('problem', cls)
    n_ops = sum(count_ops(c) for c in case['top'])
    res['steps'] = n_ops + len(case['top'])
    res['fired']['foreign_op_in_flight'] += ctx.foreign_in_flight
    for c in case['top']:
        for op in c['ops']:
            res['probes']['op:' + op[0]] += 1
    if case.get('default_at') is not None:
        res['probes']['default_app_involved'] += 1
    res['nontrivial'] = ctx.foreign_in_flight > 0
    res['digest'] = log.digest()
    return res


def _shrink_call(call):
    ops = call['ops']
    for o in shrink.list_cands(ops, 0):
        c = dict(call)
        c['ops'] = o
        c['write_at'] = min(call.get('write_at', 0), len(o))
        yield c
    for i, op in enumerate(ops):
        if op[0] in ('nest', 'new_app_serve'):
            for sub in _shrink_call(op[1]):
                c = dict(call)
                c['ops'] = ops[:i] + [[op[0], sub]] + ops[i + 1:]
                yield c
    if call.get('write_at', 0) != 0:
        c = dict(call)
        c['write_at'] = 0
        yield c
    if call['status'] != 200:
        c = dict(call)
        c['status'] = 200
        yield c


def shrink_candidates(case):
    if case.get('threads'):
        from . import c10_sched
        yield from c10_sched.shrink_candidates(case)
        return
    top = case['top']
    for t in shrink.list_cands(top, 1):
        yield shrink.with_key(case, 'top', t)
    for i, call in enumerate(top):
        for c in _shrink_call(call):
            yield shrink.with_key(case, 'top', top[:i] + [c] + top[i + 1:])
    if case.get('default_at') is not None:
        yield shrink.with_key(case, 'default_at', None)
    if case['n_apps'] > 2 and all(_max_app(c) < 2 for c in top):
        yield shrink.with_key(case, 'n_apps', 2)
    if case.get('construct_order') != 'fwd':
        yield shrink.with_key(case, 'construct_order', 'fwd')


def _max_app(call):
    m = call['app']
    for op in call['ops']:
        if op[0] == 'nest':
            m = max(m, _max_app(op[1]))
    return m
