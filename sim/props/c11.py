"""C11 — the router after any edit history equals a freshly built router.

Engine E-hist.  A seeded history of edits (add / overwrite / rejected add /
remove by rule, name, prefix wildcard / install and remove route hooks) is
applied through the public Ombott API to one application.  A plain reference
model (routes, names, hooks) is updated only when the real operation returned
normally; after every step

  * an application is freshly built from the model and must answer every probe
    (resolve x method lists, lookups by name / by rule, the routes index, the
    hook index) exactly like the edited one;
  * an edit that raised (the injected fault: the router rejecting an edit half
    way) must have left every observation unchanged;
  * the same edit applied to an application freshly built from the previous
    model state must be accepted / rejected alike (a removed route must really
    be gone, e.g. it must not keep blocking a registration);
  * through Ombott.__call__, the route hooks that fire are exactly the hooks
    whose pattern is a prefix of the matched route's pattern, outermost first,
    each called with the matched path prefix (computed from the model by the
    harness' own rule matcher, not by the router).
"""
import io
import re
import random
import zlib

from ..core import new_result, violation, Log, digest, HarnessError
from .. import shrink
from ..wsgi import make_environ, call_app

PROP = 'C11'
LEVEL = 'exploration'
BATCH = 40
TIERS = {
    'quick': {'runs': 40000, 'budget': 45},
    'thorough': {'runs': 4_000_000, 'budget': 480},
}
RULE = ('seeded runs: an edit history (2-14 ops, op mix / rule subset / name set drawn per run) over a fixed rule '
        'universe with shared prefixes, prefix splits, wildcard siblings, filter conflicts, two syntaxes of one pattern '
        'and hook-only prefixes; in 12 % of the runs one edit of the history is applied on one thread while a second '
        'thread looks paths up, interleaved by the deterministic scheduler (line or instruction granularity); sweep units: every op sequence of length <= 2 (quick) '
        '(thorough: every triple, in seeded order as far as the budget reaches) over a reduced op alphabet, each after a fixed prelude. A run is non-trivial when at least '
        'one edit was rejected by the router (the injected fault) or at least one removal / hook removal changed the '
        'tree. distinct = distinct digests of (op list) among non-trivial runs; states = distinct canonical '
        'serialisations of the radix tree read from outside after each step.')
STATE_MEASURE = 'distinct canonical serialisations (key, has-route, has-hook, filter?, children) of RadiDict.root after a step'
COMPONENTS = {
    'real': ['ombott (Ombott.add_route/remove_route/on_route/remove_route_hook, RadiRouter, RadiDict, Route, parser, '
             'filters; Ombott.__call__ for the hook-firing oracle)'],
    'simulated': ['WSGI server (sim.wsgi.call_app)', 'edit history generator and reference model (routes/names/hooks)',
                  'thread scheduler (sim.sched) for the edit-with-concurrent-lookups step'],
    'stubbed': [],
}
ASSUMPTIONS = [
    'prefix-wildcard removal over hooks (which the statement leaves open): in 40 % of the seeded runs it is generated only when no '
    'hook lies at or under the prefix; in the others and in the sweeps the application settles every such hook itself right '
    'after the removal (installs it again or removes it explicitly), nothing is compared in between, everything afterwards',
    'whether an edit is accepted is never predicted by the model, only compared with a freshly built router',
    'lookups running concurrently with an edit only read: what they return meanwhile is not judged, the router after the edit is',
    'on a 404 only what Ombott.handler consumes is compared (innermost partial hook, its position, parameter values)',
]

# ---- universe -----------------------------------------------------------------------------
# rule text -> (pattern as the router keys it, regex pieces for the harness' own matcher)
ROUTE_RULES = [
    '/', '/a', '/a/b', '/a/bc', '/a/bd', '/ab', '/a/b/c', '/a/b/d',
    '/a/:x', '/a/:x/e', '/a/{y}/e', '/a/<x:int>', '/a/<x:int>/f',
    '/u/<id:int>', '/u/<id:int>/p', '/u/<name:re([a-z]+)>', '/u/:id/q',
    '/f/<p:path()>/end', '/f/<p:path>',
    '/s/x', '/s/xy', '/s/xyz', '/s',
    '/h/k/r', '/h/k/r2',
]
HOOK_RULES = ['/', '/a', '/a/', '/a/b', '/a/:x', '/s/x', '/s', '/h', '/h/k', '/u/<id:int>', '/u/:id', '/zz',
              '/a/:other', '/u/<uid:int>', '/a/{z}']      # the same patterns under other parameter names
BAD_RULES = ['/bad/<x', '/bad/<x:>>', '/bad/{:}']
NAMES = ['n1', 'n2', 'n3']
METHODS = ['GET', 'POST', ['GET', 'POST'], 'ANY', 'put', ['HEAD', 'DELETE']]
PREFIXES = ['/a/b*', '/a/*', '/a*', '/s/x*', '/s*', '/h/*', '/u/*', '/*', '/a/bc*', '/q*', '/h/k/r*', '/f/*']
N_HANDLERS = 5
N_HOOKS = 4

_PARAM = re.compile(r':[A-Za-z_]\w*|\{[^}]*\}|<[^>]*>')


def pattern_of(rule):
    """The key the router files a rule under: leading '/' dropped, each
    parameter replaced by CR (written independently of the router's parser)."""
    return _PARAM.sub('\r', rule[1:])


def _param_regexes(rule):
    out = []
    for m in _PARAM.finditer(rule):
        t = m.group(0)
        if 'int' in t:
            out.append(r'-?\d+')
        elif 're(' in t:
            out.append(t[t.index('re(') + 3:t.rindex(')')])
        elif 'path' in t:
            out.append(None)    # not used for hooks
        else:
            out.append(r'[^/]*')
    return out


def hook_prefix_regex(rule):
    """Regex matching the concrete path prefix a hook rule covers (hook rules
    use static text, plain and int parameters only)."""
    parts = _PARAM.split(rule[1:])
    regs = _param_regexes(rule)
    s = ''
    for i, p in enumerate(parts):
        s += re.escape(p)
        if i < len(regs):
            s += '(?:' + regs[i] + ')'
    return re.compile(s)


PROBE_PATHS = [
    '/', '', '/a', '/a/', '/a/b', '/a/bc', '/a/bd', '/a/be', '/ab', '/abc', '/a/b/c', '/a/b/d', '/a/b/e',
    '/a/1', '/a/x', '/a/12/e', '/a/xy/e', '/a/12/f', '/a/xy/f', '/a/b/e',
    '/u/5', '/u/abc', '/u/5/p', '/u/abc/p', '/u/5/q', '/u/-7',
    '/f/x/y/end', '/f/x/y/z', '/f/end',
    '/s', '/s/x', '/s/xy', '/s/xyz', '/s/xyzw', '/s/y',
    '/h', '/h/k', '/h/k/r', '/h/k/r2', '/h/k/r3', '/zz', '/nope',
]
PROBE_METHODS = [['GET'], ['POST', 'ANY'], ['HEAD', 'GET', 'ANY'], ['PUT', 'ANY'], ['DELETE']]

_LOG = []       # hook firing log of the current WSGI probe
_HANDLERS = []
_HOOKS = []


def _mk_handler(i):
    def handler(**kw):
        return 'h%d:%s' % (i, sorted(kw.items()))
    handler.__name__ = handler.__qualname__ = 'h%d' % i
    handler._idx = i
    return handler


def _mk_hook(i):
    def hook(prefix, *a):
        _LOG.append((i, prefix))
    hook.__name__ = hook.__qualname__ = 'k%d' % i
    hook._idx = i
    return hook


for _i in range(N_HANDLERS):
    _HANDLERS.append(_mk_handler(_i))
for _i in range(N_HOOKS):
    _HOOKS.append(_mk_hook(_i))


# ---- generation ---------------------------------------------------------------------------

def gen_op(rng, rules, hook_rules, names, weights):
    kind = rng.choices(['add', 'rm_rule', 'rm_name', 'rm_prefix', 'hook', 'unhook', 'rm_pattern'], weights)[0]
    if kind == 'add':
        rule = rng.choice(rules) if rng.random() > 0.03 else rng.choice(BAD_RULES)
        meth = rng.choice(METHODS)
        name = rng.choice(names) if rng.random() < 0.45 else None
        return ['add', rule, meth, rng.randrange(N_HANDLERS), name, rng.random() < 0.25]
    if kind == 'rm_rule':
        return ['rm_rule', rng.choice(rules if rng.random() < 0.85 else HOOK_RULES)]
    if kind == 'rm_pattern':
        return ['rm_pattern', rng.choice(rules)]
    if kind == 'rm_name':
        return ['rm_name', rng.choice(names)]
    if kind == 'rm_prefix':
        return ['rm_prefix', rng.choice(PREFIXES)]
    if kind == 'hook':
        return ['hook', rng.choice(hook_rules), rng.randrange(N_HOOKS)]
    if rng.random() < 0.04:
        return ['unhook', rng.choice(PREFIXES)]      # hooks cannot be removed by wildcard: a rejected edit that must change nothing
    return ['unhook', rng.choice(hook_rules)]


def gen_case(rng, tier):
    nr = rng.choice([4, 6, 9, 14, len(ROUTE_RULES)])
    rules = rng.sample(ROUTE_RULES, nr)
    hook_rules = rng.sample(HOOK_RULES, rng.choice([2, 4, 7, len(HOOK_RULES)]))
    names = NAMES[:rng.choice([1, 2, 3])]
    # swarm: op mix differs per run
    weights = [rng.choice([2, 4, 6]), rng.choice([0, 1, 3]), rng.choice([0, 1, 2]), rng.choice([0, 0, 1, 2]),
               rng.choice([0, 1, 3]), rng.choice([0, 1, 2]), rng.choice([0, 0, 1])]
    n = rng.randint(2, 14 if tier == 'quick' else 24)
    ops = [gen_op(rng, rules, hook_rules, names, weights) for _ in range(n)]
    if rng.random() < 0.08 and len(ops) > 2:
        ops.insert(rng.randrange(1, len(ops)), ['churn'])
    case = {'ops': ops, 'wsgi_every': rng.choice([0, 1, 1, 3]), 'over_hooks': rng.random() < 0.6}
    if rng.random() < 0.12:
        # one edit of the history is applied while another thread is looking paths up (a server thread routing a
        # request while the application is being reconfigured): lookups only read, so the router after the edit
        # must be what it is without them.  The deterministic scheduler decides the interleaving.
        from ..sched import gen_plan
        at = rng.randrange(len(ops))
        paths = rng.sample(PROBE_PATHS, rng.choice([1, 2, 4]))
        case['conc'] = {'at': at, 'paths': paths, 'plan': gen_plan(rng, 60 + 90 * len(paths), 2),
                        'gran': 'instr' if rng.random() < 0.25 else 'line'}
    return case


SWEEP_ALPHABET = [
    ['add', '/a/b', 'GET', 0, None, False], ['add', '/a/bc', 'GET', 1, 'n1', False],
    ['add', '/a', 'GET', 2, 'n1', False], ['add', '/a/:x', 'GET', 3, 'n2', False],
    ['add', '/a/<x:int>', 'GET', 4, None, False], ['add', '/a/b', 'POST', 1, 'n2', True],
    ['add', '/s/xy', 'GET', 0, None, False], ['add', '/s/x', 'GET', 1, None, False],
    ['rm_rule', '/a/b'], ['rm_rule', '/a'], ['rm_rule', '/a/:x'], ['rm_rule', '/s/x'], ['rm_rule', '/s/xy'],
    ['rm_name', 'n1'], ['rm_name', 'n2'],
    ['rm_prefix', '/a/b*'], ['rm_prefix', '/a/*'], ['rm_prefix', '/s/x*'], ['rm_prefix', '/*'],
    ['hook', '/a', 0], ['hook', '/a/b', 1], ['hook', '/', 2], ['hook', '/s', 3], ['hook', '/a/:x', 0],
    ['unhook', '/a'], ['unhook', '/a/b'], ['unhook', '/'], ['unhook', '/s'], ['unhook', '/a/:x'],
]
PRELUDES = [
    [],
    [['add', '/a/b', 'GET', 0, 'n1', False], ['add', '/a/bc', 'GET', 1, None, False], ['hook', '/a', 0]],
    [['add', '/s/xyz', 'GET', 0, 'n2', False], ['hook', '/s/x', 1], ['add', '/a/:x/e', 'GET', 2, 'n1', False]],
    [['hook', '/a/b', 1], ['hook', '/', 2], ['add', '/a/b/c', 'GET', 3, 'n1', False], ['add', '/a/b/c', 'POST', 3, 'n2', True]],
]


def sweep_units(tier, root):
    units = []
    A = len(SWEEP_ALPHABET)
    for p in range(len(PRELUDES)):
        for i in range(A):
            units.append({'prelude': p, 'first': i, 'depth': 2})
    if tier == 'thorough':
        # every op triple over the alphabet after every prelude (4 x 29^3 = 97 556 histories), in a seeded order so
        # that a budget that ends early still covers a uniform sample of them
        rng = random.Random(root ^ 0xC11)
        triples = [{'prelude': p, 'first': i, 'second': j, 'depth': 3}
                   for p in range(len(PRELUDES)) for i in range(A) for j in range(A)]
        rng.shuffle(triples)
        units.extend(triples)
    return units


def expand_unit(u):
    pre = PRELUDES[u['prelude']]
    first = SWEEP_ALPHABET[u['first']]
    if u['depth'] == 2:
        for b in SWEEP_ALPHABET:
            yield {'ops': pre + [first, b], 'wsgi_every': 1, 'over_hooks': True}
    else:
        second = SWEEP_ALPHABET[u['second']]
        for c in SWEEP_ALPHABET:
            yield {'ops': pre + [first, second, c], 'wsgi_every': 0, 'over_hooks': True}


def summarise(case):
    return case


# ---- reference model -------------------------------------------------------------------------

class Model:
    def __init__(self):
        self.routes = {}    # pattern -> {'rule': first rule text, 'methods': {METHOD: handler idx}}
        self.names = {}     # name -> pattern
        self.hooks = {}     # pattern -> (rule text, hook idx)

    def copy(self):
        m = Model()
        m.routes = {p: {'rule': r['rule'], 'methods': dict(r['methods'])} for p, r in self.routes.items()}
        m.names = dict(self.names)
        m.hooks = dict(self.hooks)
        return m

    def apply(self, op):
        k = op[0]
        if k == 'add':
            _, rule, meth, h, name, overwrite = op
            pat = pattern_of(rule)
            r = self.routes.get(pat)
            if r is None:
                r = self.routes[pat] = {'rule': rule, 'methods': {}}
            for m in ([meth] if isinstance(meth, str) else meth):
                r['methods'][m.upper()] = h
            if name:
                self.names[name] = pat
        elif k in ('rm_rule', 'rm_pattern'):
            self._drop({pattern_of(op[1])})
        elif k == 'rm_name':
            self._drop({self.names[op[1]]})
        elif k == 'rm_prefix':
            pre = pattern_of(op[1])[:-1]
            self._drop({p for p in self.routes if p.startswith(pre)})
        elif k == 'hook':
            pat = pattern_of(op[1])
            # like a route, a hook slot keeps the rule (hence the filters) it was created with
            self.hooks[pat] = (self.hooks[pat][0] if pat in self.hooks else op[1], op[2])
        elif k == 'unhook':
            self.hooks.pop(pattern_of(op[1]), None)

    def _drop(self, pats):
        for p in pats:
            self.routes.pop(p, None)
        for n in [n for n, p in self.names.items() if p in pats]:
            del self.names[n]

    def hook_blocks_prefix(self, prefix_rule):
        pre = pattern_of(prefix_rule)[:-1]
        return any(hp.startswith(pre) for hp in self.hooks)


def new_app():
    import ombott
    return ombott.Ombott()


def apply_real(app, op):
    """Apply one edit through the public API.  Returns None or the exception."""
    k = op[0]
    try:
        if k == 'add':
            _, rule, meth, h, name, overwrite = op
            app.add_route(rule, meth, _HANDLERS[h], name, overwrite=overwrite)
        elif k == 'rm_rule':
            app.remove_route(op[1])
        elif k == 'rm_pattern':
            app.remove_route(route_pattern=pattern_of(op[1]))
        elif k == 'rm_name':
            app.remove_route(name=op[1])
        elif k == 'rm_prefix':
            app.remove_route(op[1])
        elif k == 'hook':
            app.on_route(op[1], _HOOKS[op[2]])
        elif k == 'unhook':
            app.remove_route_hook(op[1])
        else:
            raise HarnessError(f'unknown op {op}')
    except HarnessError:
        raise
    except Exception as e:   # noqa
        return e
    return None


def apply_with_lookups(app, op, conc, res):
    """The edit on thread 0, lookups of conc['paths'] on thread 1, interleaved by the scheduler.  What the lookups
    return while the edit is half done is not judged (nor an exception they meet); the edit's outcome and the
    router afterwards are judged as for any other edit."""
    from ..sched import Sched
    from ..core import REPO
    out = []
    seen = []

    def edit():
        out.append(apply_real(app, op))

    def lookups():
        for path in conc['paths']:
            for ml in (None, ['GET'], ['POST', 'ANY']):
                try:
                    r = app.router.resolve(path, ml) if ml else app.router.resolve(path)
                    seen.append(bool(r))
                except Exception:   # noqa
                    seen.append('raised')
    gran = conc.get('gran', 'line')
    s = Sched(2, conc['plan'], prefixes=(REPO.rstrip('/') + '/ombott/',), granularity=gran,
              max_steps=(2_000_000 if gran == 'instr' else 200_000))
    s.run([edit, lookups], timeout=60.0)
    if s.capped:
        raise HarnessError('an edit with concurrent lookups exceeded its step cap')
    for i in (0, 1):
        if s.errors[i] is not None:
            raise HarnessError(f'edit/lookup thread {i} raised {type(s.errors[i]).__name__}: {s.errors[i]}')
    res['fired']['edit_with_concurrent_lookups'] += 1
    if s.executed and len(s.executed) > 1:
        res['fired']['edit_preempted_by_lookup'] += 1
    return (out[0] if out else None), s.explicit_plan()


def build_fresh(model):
    """An application freshly built from the surviving routes, names and hooks."""
    app = new_app()
    by_pat_names = {}
    for n, p in model.names.items():
        by_pat_names.setdefault(p, []).append(n)
    for pat, r in model.routes.items():
        for m, h in r['methods'].items():
            app.add_route(r['rule'], m, _HANDLERS[h])
        for n in by_pat_names.get(pat, ()):
            m, h = next(iter(r['methods'].items()))
            app.add_route(r['rule'], m, _HANDLERS[h], n, overwrite=True)
    for pat, (rule, k) in model.hooks.items():
        app.on_route(rule, _HOOKS[k])
    return app


_FRESH_CACHE = {}     # model key -> (fresh app, its observation); a pure function of the model state
_TWIN_CACHE = {}      # (model key, op) -> outcome class of the op on an app freshly built from that state


def model_key(model, rules):
    return digest([list(model.routes.items()), list(model.names.items()), list(model.hooks.items()), rules])


def churn_filters(n=140):
    """Register n routes with pairwise distinct filter specs on a throw-away router: exercises whatever
    process-wide state route parsing keeps (filter cache) between the edits of the router under test."""
    import ombott
    scratch = ombott.Ombott()
    for i in range(n):
        scratch.add_route('/churn%d/<x:re(c{%d})>' % (i, i + 1), 'GET', _HANDLERS[0])


def fresh_for(model, rules, use_cache=True):
    k = model_key(model, rules)
    got = _FRESH_CACHE.get(k) if use_cache else None
    if got is None:
        app = build_fresh(model)
        got = (app, observe(app, rules, HOOK_RULES, NAMES))
        if use_cache:
            if len(_FRESH_CACHE) > 4000:
                _FRESH_CACHE.clear()
            _FRESH_CACHE[k] = got
    return got


def twin_outcome(prev_model, rules, op, use_cache=True):
    k = (model_key(prev_model, rules), repr(op))
    got = _TWIN_CACHE.get(k) if use_cache else None
    if got is None:
        exc = apply_real(build_fresh(prev_model), op)
        got = 'ok' if exc is None else type(exc).__name__
        if use_cache:
            if len(_TWIN_CACHE) > 20000:
                _TWIN_CACHE.clear()
            _TWIN_CACHE[k] = got
    return got


def _route_view(route):
    if route is None:
        return None
    return [route.pattern, sorted((m, getattr(rm.handler, '_idx', '?')) for m, rm in route.methods.items())]


def _hook_idx(h):
    return None if h is None else getattr(h, '_idx', '?')


def observe(app, rules, hook_rules, names):
    """Everything a user can ask the router, in canonical form."""
    router = app.router
    obs = {}
    res = {}
    for path in PROBE_PATHS:
        found = router.resolve(path)
        for ml in (PROBE_METHODS if found else PROBE_METHODS[:1]):
            try:
                end_point, err = router.resolve(path, ml)
                if end_point:
                    meth, params, hooks = end_point
                    v = ['ok', _hook_idx(meth.handler), meth.name, sorted(params.items()),
                         [[pos, _hook_idx(h[0])] for pos, h in hooks if h[0] is not None]]
                elif err[0] == 405:
                    v = [405, err[2]]
                else:
                    extra = err[2]
                    v = [404]
                    hc = extra['hooks']
                    if hc and hc[-1][1][1] is not None:
                        v.append([hc[-1][0], _hook_idx(hc[-1][1][1]), list(extra['param_values'])])
            except Exception as e:   # noqa
                v = ['raised', type(e).__name__]
            res[path + ' ' + ','.join(ml)] = v
    obs['resolve'] = res
    obs['names'] = {n: _route_view(router[n]) for n in NAMES}
    by_rule = {}
    for rule in rules:
        try:
            by_rule[rule] = _route_view(router[{rule}])
        except Exception as e:   # noqa
            by_rule[rule] = ['raised', type(e).__name__]
    obs['by_rule'] = by_rule
    obs['routes'] = sorted(_route_view(r) for r in router.routes.values())
    obs['routes_keys_agree'] = all(k == r.pattern for k, r in router.routes.items())
    hk = {}
    for rule in hook_rules:
        try:
            hk[rule] = _hook_idx(router.get_hook(rule)[0])
        except KeyError:
            hk[rule] = None
        except Exception as e:   # noqa
            hk[rule] = ['raised', type(e).__name__]
    obs['hook_index'] = hk
    return obs


def tree_shape(node, TOKEN='\r'):
    from ombott.router.radidict import KEY, HOOKS, DATA, OFFSET, FILTER
    kids = sorted((tree_shape(c) for c in node[OFFSET:]), key=repr)
    return (node[KEY], node[DATA] is not None, bool(node[HOOKS]), node[FILTER] is not None, tuple(kids))


def wsgi_paths(*apps):
    """Probe paths that reach a route in at least one of the applications (the
    others would only render the same 404 page)."""
    return [p for p in PROBE_PATHS if p and any(a.router.resolve(p) for a in apps)] + ['/nope']


def wsgi_probe(app, paths):
    """Serve the probe paths with GET; returns {path: [status, body, fired hooks]}."""
    out = {}
    for path in paths:
        del _LOG[:]
        env = make_environ('GET', path)
        r = call_app(app, env)
        out[path] = [r.status, r.body.decode('latin1') if r.code == 200 else None, list(_LOG)]
    return out


def expected_hooks(model, real_app, path):
    """From the model alone: hooks whose pattern is a prefix of the matched
    route's pattern, outermost first, with the concrete path prefix."""
    route = real_app.router.resolve(path)
    if not route:
        return None
    pat = route.pattern
    if pat not in model.routes or 'GET' not in model.routes[pat]['methods'] and 'ANY' not in model.routes[pat]['methods']:
        return None
    exp = []
    stripped = path.strip('/')
    for hp, (rule, k) in sorted(model.hooks.items(), key=lambda kv: len(kv[0])):
        if pat.startswith(hp):
            m = hook_prefix_regex(rule).match(stripped)
            if m is None:
                return None     # the harness matcher cannot tell (never for the universe used)
            exp.append((k, '/' + m.group(0)))
    return exp


def first_diff(a, b, path=''):
    if type(a) is not type(b):
        return f'{path}: {a!r} != {b!r}'
    if isinstance(a, dict):
        for k in sorted(set(a) | set(b), key=repr):
            if k not in a or k not in b:
                return f'{path}/{k}: {a.get(k, "<absent>")!r} != {b.get(k, "<absent>")!r}'
            d = first_diff(a[k], b[k], f'{path}/{k}')
            if d:
                return d
        return None
    if a != b:
        return f'{path}: {a!r} != {b!r}'
    return None


def _aspect(diff):
    return diff.split('/', 2)[1].split(':')[0] if diff and diff.startswith('/') else 'x'


def run_case(case):
    res = new_result()
    log = Log(case.get('_seed'))
    ops = case['ops']
    rules = ROUTE_RULES
    hook_rules = HOOK_RULES
    app = new_app()
    model = Model()
    prev_obs = observe(app, rules, hook_rules, NAMES)
    states = set()
    wsgi_every = case.get('wsgi_every', 0)
    n_rejected = n_removed = 0
    use_cache = True
    over_hooks = case.get('over_hooks', False)
    from collections import deque
    queue = deque((i, op, None) for i, op in enumerate(ops))
    unresolved = 0      # hooks below a removed prefix whose state is unspecified until the application re-defines them
    while queue:
        step, op, resolving = queue.popleft()
        kind = op[0]
        if kind == 'churn':
            churn_filters()
            use_cache = False        # references built before the churn hold filter objects from before it
            log(step, 'churn')
            res['probes']['op:churn'] += 1
            # the router under test must answer as before
            obs = observe(app, rules, hook_rules, NAMES)
            d = first_diff(prev_obs, obs)
            if d:
                violation(res, 'C11:changed-by-unrelated-registrations',
                          f'after 140 routes with distinct filters were registered on ANOTHER router, the router under '
                          f'test answers differently: {d}')
                break
            continue
        below = []
        if kind == 'rm_prefix' and model.hook_blocks_prefix(op[1]):
            if not over_hooks:
                log(step, 'skip', op)
                res['probes']['skipped:prefix-over-hook'] += 1
                continue
            # "prefix-wildcard removal is specified for routes only": what becomes of the hooks below the prefix is
            # unspecified, so the application says so itself - right after the removal it installs each of them
            # again or removes it explicitly (which of the two is a pure function of the hook and the step); nothing
            # is compared until the last of them is settled, everything afterwards
            pre = pattern_of(op[1])[:-1]
            below = sorted((hp, v) for hp, v in model.hooks.items() if hp.startswith(pre))
            res['probes']['prefix-removed-over-hooks'] += 1
        prev_model = model.copy()
        conc = case.get('conc')
        if conc is not None and conc['at'] == step and resolving is None and kind != 'churn':
            exc, executed = apply_with_lookups(app, op, conc, res)
            log(step, 'concurrent lookups', executed['switches'], 'first', executed['first'])
            import copy as _copy
            exp = _copy.deepcopy(case)
            exp['conc']['plan'] = executed
            res['explicit'] = exp
        else:
            exc = apply_real(app, op)
        # the same edit on an application freshly built from the previous state
        if resolving == 'unhook':
            outcome_twin = 'ok' if exc is None else type(exc).__name__      # unspecified state: any answer is fine
        else:
            outcome_twin = twin_outcome(prev_model, rules, op, use_cache)
        outcome = 'ok' if exc is None else type(exc).__name__
        log(step, op, outcome)
        res['probes']['op:' + kind + (':rejected' if exc else '')] += 1
        if exc is None:
            model.apply(op)
        else:
            n_rejected += 1
            res['fired']['rejected:' + type(exc).__name__] += 1
        if resolving:
            unresolved -= 1
        if below and exc is None:
            for hp, (hrule, hidx) in reversed(below):
                del model.hooks[hp]
                again = zlib.crc32(f'{hp}|{step}'.encode()) % 3 != 0
                queue.appendleft((step, ['hook', hrule, hidx] if again else ['unhook', hrule], 'hook' if again else 'unhook'))
                unresolved += 1
        if unresolved:
            if outcome != outcome_twin:
                violation(res, f'C11:acceptance-differs:{kind}',
                          f'step {step} {op}: edited router -> {outcome}, router freshly built from the same surviving '
                          f'routes/hooks -> {outcome_twin}')
                break
            prev_obs = observe(app, rules, hook_rules, NAMES)
            continue
        if outcome != outcome_twin:
            violation(res, f'C11:acceptance-differs:{kind}',
                      f'step {step} {op}: edited router -> {outcome}, router freshly built from the same surviving '
                      f'routes/hooks -> {outcome_twin}')
        if res['viol']:
            break
        obs = observe(app, rules, hook_rules, NAMES)
        if exc is not None:
            d = first_diff(prev_obs, obs)
            if d:
                violation(res, f'C11:rejected-edit-mutated:{kind}',
                          f'step {step} {op} raised {outcome} but changed the router: {d}')
        try:
            fresh, obs_fresh = fresh_for(model, rules, use_cache)
        except Exception as e:   # noqa
            violation(res, f'C11:survivors-unbuildable:{kind}',
                      f'after step {step} {op} ({outcome}) the surviving routes/hooks {sorted(model.routes)} / '
                      f'{sorted(model.hooks)} are rejected by a fresh router: {type(e).__name__}')
            break
        d = first_diff(obs_fresh, obs)
        if d:
            violation(res, f'C11:differs-from-fresh:{kind}:{_aspect(d)}',
                      f'after step {step} {op} ({outcome}): fresh != edited at {d}')
        if exc is None and kind in ('rm_rule', 'rm_name', 'rm_prefix', 'rm_pattern', 'unhook') and first_diff(prev_obs, obs):
            n_removed += 1
            res['fired']['removal-changed-router:' + kind] += 1
        prev_obs = obs
        try:
            states.add(digest(repr(tree_shape(app.router.radidict.root))))
        except Exception:       # noqa - a router that keeps its tree elsewhere: measured by its observation instead
            states.add(digest(obs))
        log(step, 'obs', digest(obs))
        if wsgi_every and (step % wsgi_every == 0 or step == len(ops) - 1):
            paths = wsgi_paths(app, fresh)
            w_real = wsgi_probe(app, paths)
            w_fresh = wsgi_probe(fresh, paths)
            d = first_diff(w_fresh, w_real)
            if d:
                violation(res, f'C11:wsgi-differs-from-fresh:{kind}',
                          f'after step {step} {op}: served response / fired hooks differ: {d}')
            for path, (status, body, fired) in w_real.items():
                if status is None or not status.startswith('200'):
                    continue
                exp = expected_hooks(model, app, path)
                if exp is not None and [tuple(x) for x in fired] != exp:
                    violation(res, f'C11:hook-firing:{kind}',
                              f'after step {step} {op}: GET {path} fired {fired}, the surviving hooks whose rule the '
                              f'matched rule extends are {exp}')
                    break
            res['probes']['wsgi_probe'] += 1
            log(step, 'wsgi', digest(w_real))
        if res['viol']:
            break
    res['steps'] = len(ops)
    res['states'] = states
    res['nontrivial'] = bool(n_rejected or n_removed)
    res['key'] = digest(ops)
    res['digest'] = log.digest()
    return res


def shrink_candidates(case):
    if case.get('conc') is not None:
        yield from _shrink_conc(case)
        return
    ops = case['ops']
    for o in shrink.list_cands(ops, 1):
        yield {'ops': o, 'wsgi_every': case.get('wsgi_every', 0), 'over_hooks': case.get('over_hooks', False)}
    for i, op in enumerate(ops):
        if op[0] == 'add':
            simpler = []
            if op[4] is not None:
                simpler.append(op[:4] + [None] + op[5:])
            if op[5]:
                simpler.append(op[:5] + [False])
            if op[2] != 'GET':
                simpler.append(op[:2] + ['GET'] + op[3:])
            if op[3] != 0:
                simpler.append(op[:3] + [0] + op[4:])
            for s in simpler:
                yield {'ops': ops[:i] + [s] + ops[i + 1:], 'wsgi_every': case.get('wsgi_every', 0),
                       'over_hooks': case.get('over_hooks', False)}
    if case.get('wsgi_every', 0) not in (0, 1):
        yield {'ops': ops, 'wsgi_every': 1, 'over_hooks': case.get('over_hooks', False)}


def _shrink_conc(case):
    """Candidates for a history with a concurrent step: without the concurrency at all, with fewer lookup paths, with a
    simpler plan, and with single other edits removed (the index of the concurrent edit follows)."""
    import copy
    from ..sched import simpler_plans
    c = copy.deepcopy(case)
    c.pop('conc')
    yield c
    conc = case['conc']
    for k in range(len(conc['paths'])):
        if len(conc['paths']) > 1:
            c = copy.deepcopy(case)
            c['conc']['paths'] = conc['paths'][:k] + conc['paths'][k + 1:]
            yield c
    for pl in simpler_plans(conc['plan']):
        c = copy.deepcopy(case)
        c['conc']['plan'] = pl
        yield c
    if conc.get('gran') == 'instr':
        c = copy.deepcopy(case)
        c['conc']['gran'] = 'line'
        yield c
    ops = case['ops']
    for i in range(len(ops)):
        if i == conc['at'] or len(ops) < 2:
            continue
        c = copy.deepcopy(case)
        c['ops'] = ops[:i] + ops[i + 1:]
        if i < conc['at']:
            c['conc']['at'] = conc['at'] - 1
        yield c
