"""Scheduled variant of C10: the per-application programs of c10.py run on 2-3
real threads under the deterministic scheduler (pre-emption points: every
traced line of /repo/ombott).  Arrangements: one application per thread, or two
threads on one application and a third on another; handlers may additionally
nest into an application that another thread is serving at that moment."""
import random

from ..core import new_result, violation, Log, digest, HarnessError, REPO
from ..sched import Sched, gen_plan, simpler_plans
from .. import shrink
from . import c10

PREFIXES = (REPO.rstrip('/') + '/ombott/',)


def gen_case(rng, tier):
    n_apps = rng.choice([2, 2, 3])
    n_thr = rng.choice([2, 2, 3])
    counter = [0]
    calls = []
    for t in range(n_thr):
        c = c10.gen_call(rng, n_apps, 1, counter)
        if rng.random() < 0.6:
            c['app'] = t % n_apps          # one application per thread (the nested targets stay as drawn)
            c['ops'] = [op for op in c['ops'] if not (op[0] == 'nest' and _uses_app(op[1], c['app']))]
            c['write_at'] = min(c.get('write_at', 0), len(c['ops']))
        calls.append(c)
    gran = 'instr' if rng.random() < 0.25 else 'line'      # 'instr': sys.monitoring INSTRUCTION events (DESIGN.md 10)
    est = 500 * n_thr * (9 if gran == 'instr' else 1)
    return {'threads': calls, 'n_apps': n_apps, 'default_at': rng.choice([None, None, 0, 1]),
            'construct_order': rng.choice(['fwd', 'rev']), 'plan': gen_plan(rng, est, n_thr), 'gran': gran,
            'own_cfg': rng.random() < 0.6}


def _uses_app(call, app):
    if call['app'] == app:
        return True
    return any(op[0] == 'nest' and _uses_app(op[1], app) for op in call['ops'])


def run_case(case):
    res = new_result()
    log = Log(case.get('_seed'))
    ctx = c10.Ctx()
    c10.set_ctx(ctx)
    c10.flush_process_state()
    c10.build_apps(ctx, case)
    calls = case['threads']
    n = len(calls)
    inflight = set()
    overlap = [0]
    s = Sched(n, case['plan'], prefixes=PREFIXES, granularity=case.get('gran', 'line'),
              max_steps=(4_000_000 if case.get('gran') == 'instr' else 400_000))

    def on_switch(frm, to):
        if frm in inflight:      # pre-empted in the middle of its request
            overlap[0] += 1
    s.on_switch = on_switch
    results = [None] * n

    def make(i):
        def fn():
            del c10._stack()[:]
            inflight.add(i)
            try:
                results[i] = c10.serve(ctx, calls[i])
            finally:
                inflight.discard(i)
        return fn
    s.run([make(i) for i in range(n)])
    for i in range(n):
        if s.errors[i] is not None:
            raise HarnessError(f'thread {i} harness code raised {type(s.errors[i]).__name__}: {s.errors[i]}')
        r = results[i]
        log('thread', i, calls[i]['m'], calls[i]['app'], r.status, digest(r.canon()))
    log('executed', s.executed)
    seen = set()
    for cls, msg in ctx.problems:
        if cls not in seen:
            seen.add(cls)
            violation(res, cls + '@threads', msg)
    log('problems', sorted(seen))
    res['steps'] = s.step
    res['fired']['preempted_mid_request'] += overlap[0]
    res['probes']['scheduled'] += 1
    res['probes']['gran:' + case.get('gran', 'line')] += 1
    res['probes']['plan:' + case['plan']['mode']] += 1
    apps_used = {c['app'] for c in calls}
    res['probes']['threads_on_distinct_apps' if len(apps_used) == n else 'threads_sharing_an_app'] += 1
    res['states'] = {a + ' | ' + b for a, b in s.switch_locs}
    res['nontrivial'] = overlap[0] > 0
    res['key'] = digest([calls, case.get('default_at'), s.executed])
    res['digest'] = log.digest()
    exp = dict(case)
    exp['plan'] = s.explicit_plan()
    res['explicit'] = exp
    return res


def shrink_candidates(case):
    for p in simpler_plans(case['plan']):
        yield shrink.with_key(case, 'plan', p)
    th = case['threads']
    for i, call in enumerate(th):
        for c in c10._shrink_call(call):
            yield shrink.with_key(case, 'threads', th[:i] + [c] + th[i + 1:])
    if len(th) > 2:
        for i in range(len(th)):
            c = shrink.with_key(case, 'threads', th[:i] + th[i + 1:])
            sw = [[s, (t - 1 if t > i else t)] for s, t in c['plan'].get('switches', []) if t != i]
            c['plan'] = {'mode': 'explicit', 'first': 0, 'switches': sw}
            yield c
    if case.get('default_at') is not None:
        yield shrink.with_key(case, 'default_at', None)
    if case.get('own_cfg'):
        yield shrink.with_key(case, 'own_cfg', False)
    if case.get('gran') in ('opcode', 'instr'):
        yield shrink.with_key(case, 'gran', 'line')
