"""C09 — each response depends on its own request only; retained state is bounded.

E-hist: "reuse must be observationally equivalent to restart".  A seeded history
of requests (successes that leave status / headers / cookies behind, raised
responses, custom error handler, JSON-requesting client, 404, 405, undecodable
PATH_INFO, malformed chunked body, truncated multipart, oversized body, handler
crash, crash inside a before-hook after it touched the response, lazily-run
generator) is served by ONE application on ONE worker thread.  The failing kinds
are the injected faults and are biased to land right after a request that left
visible state.  Oracle: response k (status line, complete header list, body
incl. framework error pages) and the values its handler read equal those of the
same request served by a fresh application (restart); no response mentions an
earlier request's marker.  Retention: every request carries weak-referenceable
tokens in its environ (plus its input and error streams); after the history and
a gc.collect() the number of requests whose objects are still alive must not
exceed a small constant, whatever the length N of the history.
"""
import gc
import io
import random
import weakref

from ..core import new_result, violation, Log, digest, HarnessError
from ..wsgi import call_app
from .. import shrink
from ..apps import echo
from . import c08

PROP = 'C09'
LEVEL = 'exploration'
BATCH = 100
TIERS = {
    'quick': {'runs': 120000, 'budget': 40},
    'thorough': {'runs': 10_000_000, 'budget': 480},
}
RULE = ('seeded request histories (2-12 requests of 19 kinds; after a request that left visible state a failing kind '
        'follows with probability 0.6) on one application and one worker thread, application config (debug, buffer '
        'size) drawn per run; about 6% of the runs repeat their history to N in {50, 200, 1000 (thorough: 3000)} '
        'requests for the retention clause. A run is non-trivial when a failing request (the injected fault) directly '
        'follows a request that left state on the shared response/request objects, or when the history was long '
        '(N >= 50). distinct = distinct history digests among non-trivial runs; reach probe = matrix of ordered '
        '(earlier kind -> later kind) pairs.')
COMPONENTS = {
    'real': ['ombott (one reused Ombott: __call__/_handle/_cast, Request, Response, HTTPError/errors_map, error_render, '
             'body reader, multipart)', 'gc / weakref (retention probe)'],
    'simulated': ['WSGI server (sim.wsgi.call_app)', 'request history generator; restart = fresh application per request'],
    'stubbed': [],
}
ASSUMPTIONS = [
    'the reference (restart) serves the same request spec on a fresh application in a fresh thread',
    'retention bound: at most 6 requests may still have live per-request objects after gc.collect(), for every N',
]

KINDS = c08.KINDS
STATEFUL = {'panel', 'session', 'fixed_get', 'fixed_post', 'fixed_fail', 'boom_fixed_url', 'upload_typed', 'busy_str', 'badchunk_sizeline', 'echo_get', 'echo_post', 'echo_put', 'echo_head', 'upload', 'raise_resp', 'gen', 'crash', 'teapot', 'chunked_ok',
            'hookcrash', 'raise_err'}
FAILING = ['notfound', 'notallowed', 'json404', 'badchunk', 'big', 'badpath', 'crash', 'hookcrash', 'raise_err', 'teapot',
           'badchunk_json', 'badjson', 'badchunk', 'big', 'badchunk_sizeline', 'limit_num', 'badmultipart', 'upload_plain', 'boom_fixed_url', 'boom_fixed_url', 'fixed_fail', 'public', 'session', 'session', 'lazy_badchunk', 'lazy_big', 'reqerr']
RETAIN_MAX = 6


class Token:
    __slots__ = ('__weakref__',)


def gen_case(rng, tier):
    n = rng.randint(2, 12)
    specs = []
    for i in range(n):
        if specs and specs[-1]['kind'] in STATEFUL and rng.random() < 0.6:
            kind = rng.choice(FAILING)
        else:
            kind = rng.choice(KINDS)
        specs.append(c08.gen_spec(rng, i, kind))
    cfg = {'debug': rng.random() < 0.5, 'B': rng.choice([64, 102400])}
    repeat = 1
    if rng.random() < 0.06:
        target = rng.choice([50, 200, 1000] if tier == 'quick' else [50, 200, 1000, 3000])
        repeat = max(1, target // n)
        if rng.random() < 0.5:
            # a homogeneous run: N requests that all fail the same way (a mixed history lets one kind of failure
            # release what another kind had piled up)
            kind = rng.choice([k for k in FAILING if k not in ('raise_err', 'teapot')])
            specs = [c08.gen_spec(rng, i, kind) for i in range(rng.choice([1, 2, 3]))]
            repeat = max(1, target // len(specs))
    return {'history': specs, 'cfg': cfg, 'repeat': repeat}


def summarise(case):
    return case


def setup_worker():
    c08.setup_worker()


def run_case(case):
    res = new_result()
    log = Log(case.get('_seed'))
    specs = case['history']
    cfg = case['cfg']
    repeat = case.get('repeat', 1)
    c08.flush_process_state()
    app = c08.new_app(cfg)
    refs = []          # per request: weakrefs of its per-request objects
    earlier = []       # markers of earlier requests
    prev_kind = None
    fault_after_state = 0
    total = 0
    for rep in range(repeat):
        for k, sp in enumerate(specs):
            total += 1
            echo.begin(sp)
            env = c08.environ_of(sp)
            tok = Token()
            env['sim.token'] = tok
            mine = [weakref.ref(tok), weakref.ref(env['wsgi.input']), weakref.ref(env['wsgi.errors'])]
            r = call_app(app, env)
            buf = env.get('wsgi.input')
            if buf is not None and all(w() is not buf for w in mine):
                try:
                    mine.append(weakref.ref(buf))     # the framework's own buffered copy of the body
                except TypeError:
                    pass
            del buf
            notes = list(echo.notes())
            canon = c08.canon_resp(r)
            refs.append(mine)
            del tok, env, mine
            if rep == 0:
                log(k, sp['kind'], sp['m'], r.status, digest(canon), digest(notes))
                res['probes'][f'pair:{prev_kind}->{sp["kind"]}'] += 1
                if prev_kind in STATEFUL and sp['kind'] in FAILING:
                    fault_after_state += 1
            prev_kind = sp['kind']
            if res['viol']:
                continue
            if r.escaped is not None:
                violation(res, 'C09:escape', f'request #{k} ({sp["kind"]} {sp["m"]}): exception escaped app(): '
                                             f'{type(r.escaped).__name__}: {r.escaped}')
                continue
            # nothing received or set while serving an earlier request may appear in this response
            text = (r.status or '') + '\n' + '\n'.join(f'{hk}: {hv}' for hk, hv in (r.headers or [])) + '\n' + r.body.decode('latin1')
            foreign = c08.foreign_markers(text, sp['m'])
            if not foreign:
                for name, val in notes:
                    foreign = c08.foreign_markers(repr(val), sp['m'])
                    if foreign:
                        text = f'{name} = {val!r}'
                        break
            if foreign:
                violation(res, f'C09:earlier-request-visible:{sp["kind"]}',
                          f'request #{k} ({sp["kind"]} {sp["m"]}) shows marker(s) {foreign} of another request: {text[:300]!r}')
                continue
            probs = c08.wellformed(r, c08.environ_method(sp)) + c08.own_text_problems(r, sp)
            if probs:
                violation(res, f'C09:malformed-response:{sp["kind"]}',
                          f'request #{k} ({sp["kind"]} {sp["m"]}): ' + '; '.join(probs))
                continue
            ref = c08.restart_reference(sp, cfg)
            if ref is None:
                violation(res, f'C09:no-answer:{sp["kind"]}', f'request #{k} ({sp["kind"]}): the same request is never answered '
                                                              f'by a freshly started process')
                continue
            a_canon, a_notes, _ = ref
            if canon != a_canon:
                diff = [x for x in a_canon if canon.get(x) != a_canon[x]]
                what = []
                if 'status' in diff:
                    what.append(f'status {canon["status"]!r} vs {a_canon["status"]!r}')
                if 'headers' in diff:
                    extra = [h for h in canon['headers'] if h not in a_canon['headers']]
                    missing = [h for h in a_canon['headers'] if h not in canon['headers']]
                    what.append(f'headers +{extra} -{missing}')
                if 'body' in diff:
                    what.append(f'body {bytes.fromhex(canon["body"])[:120]!r} vs {bytes.fromhex(a_canon["body"])[:120]!r}'
                                if isinstance(canon['body'], str) and isinstance(a_canon['body'], str) else 'body differs')
                if 'errors' in diff:
                    what.append('wsgi.errors output differs')
                violation(res, f'C09:differs-from-restart:{sp["kind"]}:{"+".join(diff)}',
                          f'request #{k} of the history ({sp["kind"]} {sp["m"]}, after '
                          f'{[s["kind"] for s in (specs * 2)[max(0, k - 2 + (len(specs) if rep else 0)):k + (len(specs) if rep else 0)]]}) '
                          f'differs from the same request on a fresh application: ' + '; '.join(what))
            elif notes != a_notes:
                d = next((j for j, (x, y) in enumerate(zip(notes, a_notes)) if x != y), min(len(notes), len(a_notes)))
                violation(res, f'C09:reads-differ-from-restart:{sp["kind"]}',
                          f'request #{k} ({sp["kind"]} {sp["m"]}): handler read {notes[d] if d < len(notes) else None!r}, '
                          f'on a fresh application {a_notes[d] if d < len(a_notes) else None!r}')
    # ---- retention ---------------------------------------------------------------------
    gc.collect()
    alive = sum(1 for mine in refs if any(w() is not None for w in mine))
    # (the exact count is not logged: the process-wide errors_map responses legitimately keep the
    #  latest failing request of each kind alive, and whether that is a request of this history or
    #  of a cached/uncached reference run is not part of the run's identity)
    log('retained_within_bound', alive <= RETAIN_MAX, 'of', total)
    res['probes'][f'alive_after_gc={alive}'] += 1
    res['probes']['requests_served'] += total
    if alive > RETAIN_MAX:
        kinds_alive = sorted({(specs * repeat)[i]['kind'] for i, mine in enumerate(refs) if any(w() is not None for w in mine)})
        violation(res, 'C09:retention',
                  f'after {total} requests and gc.collect(), per-request objects (environ token / input stream / error '
                  f'stream) of {alive} requests are still alive (bound {RETAIN_MAX}); kinds still alive: {kinds_alive}')
    if total >= 50:
        res['fired']['long_history'] += 1
        res['probes'][f'retention_N>={50 if total < 200 else 200 if total < 1000 else 1000}'] += 1
    res['fired']['fault_right_after_stateful_request'] += fault_after_state
    res['steps'] = total
    res['nontrivial'] = fault_after_state > 0 or total >= 50
    res['key'] = digest([specs, cfg, repeat])
    res['digest'] = log.digest()
    return res


def shrink_candidates(case):
    h = case['history']
    if case.get('repeat', 1) > 1:
        for r in (1, 2, case['repeat'] // 2):
            if r < case['repeat']:
                yield shrink.with_key(case, 'repeat', r)
    for hh in shrink.list_cands(h, 1):
        yield shrink.with_key(case, 'history', hh)
    if case['cfg'].get('debug'):
        yield shrink.with_key(case, 'cfg', dict(case['cfg'], debug=False))
    if case['cfg'].get('B') != 102400:
        yield shrink.with_key(case, 'cfg', dict(case['cfg'], B=102400))
    for i, sp in enumerate(h):
        if sp['status'] != 200 and sp['kind'] in ('echo_get', 'echo_post', 'echo_head', 'gen', 'echo_put'):
            yield shrink.with_key(case, 'history', h[:i] + [dict(sp, status=200)] + h[i + 1:])
