"""C13 — body size limits and disk spooling bound what a request can consume.

Sizes around the limits (below / equal / above by one / far above / ENDLESS) x
(max_body_size M, max_memfile_size B) pairs x framing x content type x delivery
schedule.  The simulated stream measures how much was read: that is how an
endless body proves the consumption bound.
"""
import random

from ..core import new_result, violation, Log, hx, unhx, digest
from ..stream import gen_schedule, simpler_schedules
from ..bodyreq import body_request
from .. import gen_multipart as gm
from .. import shrink

PROP = 'C13'
LEVEL = 'exploration'
BATCH = 200
TIERS = {
    'quick': {'runs': 250000, 'budget': 35},
    'thorough': {'runs': 4_000_000, 'budget': 420},
}
RULE = ('seeded runs: payload type (raw / urlencoded / JSON / multipart text field / multipart file part) x total size '
        'drawn from {0, B-1, B, B+1, M-1, M, M+1, M+B, M+B+1, 10M, endless} x (M, B) incl. M<B, M=B, M>B, M unset x '
        'framing (Content-Length; chunked with chunk sizes 1..>B) x delivery schedule x real/in-memory temp file. '
        'Non-trivial = a limit was actually exercised: the body exceeded M (rejection path), exceeded B (spill or '
        'text refusal path), sat exactly on a limit, or the stream was endless. distinct = distinct case digests '
        'among non-trivial runs.')
COMPONENTS = {
    'real': ['ombott (Ombott.__call__, _body_read size check and spill switch, _get_body_string, FieldStorage budget, errors_map -> 413)',
             'tempfile.TemporaryFile (subset)'],
    'simulated': ['wsgi.input (SimStream with read accounting; endless variant)', 'WSGI server', 'reference encoders'],
    'stubbed': ['temp file replaced by in-memory MemTemp in a subset of runs'],
}
ASSUMPTIONS = [
    'under chunked framing the bound is computed from the actual encoding: offset where payload byte M+B completes + that chunk\'s CRLF + one size line',
    'text whose size is <= B but whose cumulative in-memory budget (part headers + earlier text) exceeds B may be accepted or refused',
]

PTYPES = ['raw', 'raw', 'urlenc', 'json', 'mp_text', 'mp_file', 'mp_multi']


def make_payload(ptype, T, boundary='bnd'):
    """-> (body bytes, ctype, info).  Body has exactly T bytes when T is large enough for the type."""
    if ptype == 'raw':
        return bytes((i * 7 + 3) & 0xff for i in range(T)), 'application/octet-stream', {'text': None}
    if ptype == 'urlenc':
        T = max(T, 2)
        return b'a=' + b'x' * (T - 2), 'application/x-www-form-urlencoded', {'text': T, 'value': 'x' * (T - 2)}
    if ptype == 'json':
        T = max(T, 8)
        return b'{"a":"' + b'x' * (T - 8) + b'"}', 'application/json', {'text': T, 'value': 'x' * (T - 8)}
    if ptype in ('mp_text', 'mp_file'):
        f = {'name': 'f'}
        if ptype == 'mp_file':
            f.update(filename='up.bin', ctype='application/octet-stream', data='')
        else:
            f['value'] = ''
        empty, _ = gm.encode_fields([f], boundary)
        n = max(0, T - len(empty))
        if ptype == 'mp_file':
            f['data'] = (b'y' * n).hex()
        else:
            f['value'] = 'y' * n
        body, layout = gm.encode_fields([f], boundary)
        hs, he, ds, de = layout[0]
        return body, 'multipart/form-data; boundary=' + boundary, {'text': (n if ptype == 'mp_text' else None), 'field': n,
                                                                   'hdr': he - hs, 'value': 'y' * n}
    if ptype == 'mp_multi':
        # several text fields whose values add up to about T bytes: the in-memory budget is for the form, not per field
        k = 2 + T % 4
        each = max(0, T // k)
        fields = [{'name': 'f%d' % j, 'value': 'y' * each} for j in range(k)]
        body, layout = gm.encode_fields(fields, boundary)
        hdr = sum(he - hs for hs, he, ds, de in layout)
        return body, 'multipart/form-data; boundary=' + boundary, {'text': k * each, 'field': each, 'hdr': hdr,
                                                                   'value': 'y' * each, 'k': k, 'sum': k * each}
    raise AssertionError(ptype)


def chunk_wire(body, sizes, endless_chunk=None, long_ext=None, spelling='lower'):
    """-> (wire, offsets) where offsets[k] = wire offset right after payload byte k (1-based), computed lazily via
    function.  sizes are cycled over the body."""
    out = bytearray()
    long_ext_at = chunk_wire.long_ext_at = []
    marks = []          # (payload_count_after_chunk, wire_offset_after_chunk_data, line_len)
    pos = 0
    i = 0
    maxline = 3
    while pos < len(body):
        s = min(len(body) - pos, sizes[i % len(sizes)])
        i += 1
        # the spelling of a chunk size is the client's choice (RFC 7230 4.1: 1*HEXDIG, either case, leading zeros)
        digits = {'lower': b'%x', 'upper': b'%X', 'zeros': b'00%x', 'upper_zeros': b'0%X'}[spelling] % s
        line = digits + b'\r\n'
        if long_ext is not None and i - 1 == long_ext[0]:
            # a chunk extension longer than the buffer: the size line must be given up after one buffer
            line = digits + b';x=' + b'a' * long_ext[1] + b'\r\n'
            long_ext_at.append(len(out))
        maxline = max(maxline, len(line))
        out += line
        data_start = len(out)
        out += body[pos:pos + s]
        out += b'\r\n'
        marks.append((pos, pos + s, data_start))
        pos += s
    if endless_chunk is None:
        out += b'0\r\n\r\n'
    return bytes(out), marks, maxline


def chunked_bound(marks, maxline, total_payload, K, wire_len, endless_chunk, finite_len):
    """wire offset up to which a reader may read before having seen payload byte K, plus CRLF and one size line."""
    if K <= total_payload:
        for p0, p1, ds in marks:
            if p0 < K <= p1:
                off = ds + (K - p0)
                return off + 2 + maxline
        return wire_len
    if endless_chunk is None:
        return wire_len
    # into the endless tail: pattern = line + c bytes + CRLF
    c, line_len = endless_chunk
    rest = K - total_payload
    full = (rest - 1) // c
    off = finite_len + full * (line_len + c + 2) + line_len + (rest - full * c)
    return off + 2 + max(maxline, line_len)


def _gen_case(rng, tier):
    B = rng.choice([1, 2, 5, 16, 64, 200, 1024, 4096])
    M = rng.choice([None, None, max(1, B - 1), B, B + 1, 2 * B, 3 * B + 7, 10, 100, 1000, 4096, 0])
    ptype = rng.choice(PTYPES)
    if ptype in ('mp_text', 'mp_file', 'mp_multi') and rng.random() < 0.7:
        B = rng.choice([128, 200, 512, 1024])
        M = rng.choice([None, B + 100, 2 * B, 10 * B, 300, 5000])
    lim = M if M is not None else 3 * B
    cands = [0, B - 1, B, B + 1, lim - 1, lim, lim + 1, lim + B, lim + B + 1, 10 * lim, rng.randint(0, 3 * max(B, lim))]
    T = max(0, min(rng.choice(cands), 20000 if tier == 'quick' else 60000))
    case = {'ptype': ptype, 'T': T, 'M': M, 'B': B}
    case['framing'] = 'chunked' if (rng.random() < 0.5 and B >= 5) else 'cl'
    if case['framing'] == 'chunked':
        case['chunk_sizes'] = [max(1, x) for x in rng.choice([[1], [2, 3], [B - 1, B, B + 1], [B + 5], [7], [100], [4096], [1, 50, B + 1]])]
    case['endless'] = False
    if M is not None and ptype == 'raw' and rng.random() < 0.25:
        case['endless'] = True
        case['endless_chunk'] = rng.choice([1, 3, 16, max(1, B), B + 3, 1000])
    body, ctype, info = make_payload(ptype, T)
    n_wire = len(body) + (len(body) // max(1, min(case.get('chunk_sizes', [1]))) + 2) * 8 if case['framing'] == 'chunked' else len(body)
    case['sched'] = gen_schedule(rng, n_wire, B)
    if len(body) > 5000 and case['sched']['mode'] != 'full':
        case['sched'] = {'mode': 'regular', 'k': rng.choice([B, B + 1, 1000, 4096])}
    case['temp'] = 'mem' if rng.random() < 0.4 else 'real'
    if case['framing'] == 'chunked' and ptype == 'raw' and rng.random() < 0.25:
        # both Transfer-Encoding: chunked and a (small) Content-Length: the transfer coding wins (RFC 7230 3.3.3),
        # the limits apply to what is actually transferred
        case['cl_too'] = rng.choice([0, 1, max(0, len(body) // 2), len(body)])
    if M is not None and rng.random() < 0.3:
        case['retry'] = True      # the handler touches the body again after the refusal
    if case['framing'] == 'chunked' and not case['endless'] and len(body) > 0 and rng.random() < 0.12:
        n_chunks = max(1, len(body) // max(1, max(case['chunk_sizes'])))
        case['long_ext'] = [rng.randrange(0, min(n_chunks, 4)), B + rng.choice([1, 7, 300, 5000])]
    if case['framing'] == 'chunked':
        case['hex'] = rng.choice(['lower', 'lower', 'upper', 'upper', 'zeros', 'upper_zeros'])
    if rng.random() < 0.08:
        # another application of the same process answers request errors in its own (non-4xx) way
        case['foreign_app'] = True
    return case


def _summarise(case):
    return dict(case)


def _run_case(case):
    res = new_result()
    log = Log(case.get('_seed'))
    ptype, T, M, B = case['ptype'], case['T'], case['M'], case['B']
    body, ctype, info = make_payload(ptype, T)
    size = len(body)
    chunked = case['framing'] == 'chunked'
    endless = case.get('endless', False)
    endless_pat = None
    max_calls = None
    K = (M + B) if M is not None else None
    if chunked:
        ec = None
        if endless:
            c = case['endless_chunk']
            line = b'%x\r\n' % c
            endless_pat = line + b'z' * c + b'\r\n'
            ec = (c, len(line))
        le = case.get('long_ext')
        wire, marks, maxline = chunk_wire(body, case['chunk_sizes'], endless_chunk=ec, long_ext=le, spelling=case.get('hex', 'lower'))
        long_line_at = chunk_wire.long_ext_at[0] if (le and chunk_wire.long_ext_at) else None
        cl = None
        if K is not None:
            bound = chunked_bound(marks, maxline, size, K, len(wire), ec, len(wire))
        else:
            bound = None
    else:
        wire = body
        cl = size
        if endless:
            endless_pat = b'z' * 64
            cl = 10 ** 12
        bound = K
    if endless:
        max_calls = bound + 64
    touch = {'raw': ('body', 'copy_body'), 'urlenc': ('body', 'forms'), 'json': ('body', 'json'),
             'mp_text': ('body', 'forms'), 'mp_file': ('body', 'files'), 'mp_multi': ('body', 'forms')}[ptype]
    if chunked and case.get('cl_too') is not None:
        cl = case['cl_too']
        res['probes']['chunked_with_content_length'] += 1
    o = body_request(wire, case['sched'], B=B, M=M, cl=cl, chunked=chunked, ctype=ctype, tempmode=case['temp'],
                     touch=touch, endless=endless_pat, max_calls=max_calls, retry=(3 if case.get('retry') else 0),
                     foreign_app=bool(case.get('foreign_app')))
    if 'retry_body' in o.seen and (endless or (M is not None and len(body) > M)):
        violation(res, 'C13:refused-body-readable-on-retry',
                  f'a body refused for its size was handed out ({len(o.seen["retry_body"])} bytes) on the second access')
    code = o.resp.code
    st = o.stream
    log('status', o.resp.status, 'consumed', st.consumed, 'calls', st.n_calls)
    too_big = endless or (M is not None and size > M)
    # a chunk-size line longer than the buffer may be refused with 400 (anchored mechanism, see C05): then
    # only the consumption bound and "no 5xx / no hang" are demanded
    line_too_long = chunked and max(maxline, (ec[1] if (chunked and ec) else 0)) > B
    if line_too_long:
        res['probes']['size_line_longer_than_B'] += 1
        if o.hang is not None:
            violation(res, 'C13:unbounded-read', f'reader exceeded its read budget: {o.hang}')
        elif code is None or code >= 500:
            violation(res, 'C13:server-error', f'status {o.resp.status!r}')
        if chunked and case.get('long_ext') and long_line_at is not None and o.hang is None:
            # an over-long size line may be refused, but not read to its end: at most one buffer of it
            allowed = long_line_at + B + 2
            res['fired']['over_long_chunk_extension'] += 1
            if st.consumed > allowed:
                violation(res, 'C13:size-line-read-beyond-buffer',
                          f'a chunk-size line with a {case["long_ext"][1]}-byte extension starts at offset {long_line_at}; '
                          f'with max_memfile_size={B} the stream handed out {st.consumed} bytes (allowed {allowed})')
        res['steps'] = st.n_calls
        res['digest'] = log.digest()
        return res
    if o.hang is not None:
        violation(res, 'C13:unbounded-read', f'reader exceeded its read budget: {o.hang} (M={M}, B={B}, bound={bound})')
    elif too_big:
        if code != 413:
            violation(res, 'C13:oversized-not-413',
                      f'{"endless" if endless else size}-byte body, max_body_size={M}, framing={case["framing"]}: status {o.resp.status!r}')
    if too_big and bound is not None and st.consumed > bound and o.hang is None:
        violation(res, 'C13:read-beyond-limit-plus-buffer',
                  f'stream handed out {st.consumed} bytes before the 413; allowed {bound} (M={M} + B={B}'
                  f'{" + chunk framing" if chunked else ""})')
    if not too_big and o.hang is None:
        # body within the limit must be accepted -- unless the *text* rules refuse it
        text = info.get('text')
        must_refuse = False
        may_refuse = False
        if ptype in ('urlenc', 'json') and size > B:
            must_refuse = True
        if ptype == 'mp_text':
            if info['field'] > B:
                must_refuse = True
            elif info['field'] + info['hdr'] > B:
                may_refuse = True
        if ptype == 'mp_file' and info['hdr'] > B:
            may_refuse = True
        if ptype == 'mp_multi':
            if info['sum'] > B:
                must_refuse = True          # the text of the form alone exceeds the in-memory threshold
            elif info['sum'] + info['hdr'] > B:
                may_refuse = True
        if must_refuse:
            if code is not None and 200 <= code < 300:
                violation(res, 'C13:oversized-text-loaded',
                          f'{ptype} text of {text} bytes with max_memfile_size={B} was loaded (status {o.resp.status!r})')
            res['fired']['text_over_threshold_refused'] += 1
        elif may_refuse and not (code is not None and 200 <= code < 300):
            res['probes']['cumulative_budget_refusal'] += 1
        else:
            if code != 200:
                exc = o.handler_exc
                violation(res, 'C13:within-limit-rejected',
                          f'{ptype} body of {size} bytes (M={M}, B={B}, framing={case["framing"]}) answered {o.resp.status!r}: '
                          f'{type(exc).__name__ if exc else None}: {exc}')
            else:
                if o.seen.get('body') != body:
                    violation(res, 'C13:content-differs', f'accepted body differs from what was sent ({len(o.seen.get("body") or b"")} vs {size} bytes)')
                if size > B and 'copy_body_spilled' in o.seen and not o.seen['copy_body_spilled']:
                    violation(res, 'C13:copy-not-spilled',
                              f'request.copy().body of a {size}-byte body (max_memfile_size={B}) is held in memory, not in the temp file')
                if size > B and not o.seen.get('body_spilled'):
                    violation(res, 'C13:not-spilled',
                              f'body of {size} bytes > max_memfile_size={B} is held in {o.seen.get("body_type")} (not the temp file)')
                if ptype == 'mp_multi':
                    got = dict((k, v) for k, v in o.seen.get('forms', []))
                    if got != {('f%d' % j): info['value'] for j in range(info['k'])}:
                        violation(res, 'C13:form-value-differs', f'forms of a {info["k"]}-field form differ from what was sent')
                if ptype in ('urlenc', 'mp_text'):
                    got = dict((k, v) for k, v in o.seen.get('forms', []))
                    key = 'a' if ptype == 'urlenc' else 'f'
                    if got.get(key) != info['value']:
                        violation(res, 'C13:form-value-differs', f'forms[{key!r}] has {len(got.get(key) or "")} chars, sent {len(info["value"])}')
                if ptype == 'mp_file':
                    got = dict((k, v) for k, v in o.seen.get('files', []))
                    up = got.get('f')
                    if not isinstance(up, dict) or up.get('data') != b'y' * info['field']:
                        violation(res, 'C13:upload-differs', 'uploaded file content differs from what was sent')
    f = res['fired']
    if endless:
        f['endless_stream'] += 1
    elif M is not None and size > M:
        f['over_max_body_size'] += 1
    if M is not None and size == M:
        f['exactly_max_body_size'] += 1
    if not too_big and size > B:
        f['over_memfile_threshold'] += 1
    if size == B:
        f['exactly_memfile_threshold'] += 1
    if o.seam_created:
        res['probes']['temp_file_created:' + case['temp']] += 1
    res['probes']['ptype:' + ptype] += 1
    res['probes']['framing:' + case['framing']] += 1
    res['probes']['status:%s' % code] += 1
    if M is not None:
        res['probes']['M<B' if M < B else ('M=B' if M == B else 'M>B')] += 1
    res['steps'] = st.n_calls
    res['nontrivial'] = bool(f)
    res['digest'] = log.digest()
    if case['sched']['mode'] in ('rand', 'regular') and not endless:
        e = dict(case)
        e['sched'] = {'mode': 'script', 'sizes': st.sizes_script()}
        res['explicit'] = e
    return res


def _shrink_candidates(case):
    for sc in simpler_schedules(case['sched']):
        yield dict(case, sched=sc)
    if case['framing'] == 'chunked':
        yield dict(case, framing='cl')
        if case.get('hex', 'lower') != 'lower':
            yield dict(case, hex='lower')
        if case.get('chunk_sizes') != [7]:
            yield dict(case, chunk_sizes=[7])
    for T in shrink.int_cands(case['T'], 0):
        yield dict(case, T=T)
    if case['M'] is not None:
        for M in shrink.int_cands(case['M'], 1):
            yield dict(case, M=M)
    for B in shrink.int_cands(case['B'], 1):
        yield dict(case, B=B)
    if case['temp'] != 'mem':
        yield dict(case, temp='mem')
    if case['ptype'] != 'raw':
        yield dict(case, ptype='raw')


# ---- concurrent twin runs (sim.twin): a share of the seeded cases is served by 2-3 threads at once --------
from .. import twin as _twin   # noqa: E402

TWIN_SHARE = 0.05


def gen_case(rng, tier):
    return _twin.maybe_wrap(rng, _gen_case(rng, tier), TWIN_SHARE, gen_other=lambda r: _gen_case(r, tier),
                            ok=lambda c: c['T'] <= 4000 and not c.get('endless'))


def run_case(case):
    if 'twin' in case:
        return _twin.run(lambda inner, i: _run_case(inner), case)
    return _run_case(case)


def shrink_candidates(case):
    if 'twin' in case:
        yield from _twin.shrink_candidates(case, _shrink_candidates)
        return
    yield from _shrink_candidates(case)


def summarise(case):
    if 'twin' in case:
        return {'twin_of': _summarise(case["twin"]), 'threads': case.get('n', 2), 'plan': case['plan']}
    return _summarise(case)


def setup_worker():
    _twin.warm(_gen_case, _run_case)


TWIN_SWEEPS = {'quick': 10, 'thorough': 200}


def sweep_units(tier, root):
    units = []
    # exhaustive single pre-emption over small cases: one unit = one case x every traced step of its solo run
    units += [{'twin_sweep': i, 'seed': (root * 2654435761 + i * 40503) & 0xffffffff} for i in range(TWIN_SWEEPS[tier])]
    return units


def expand_unit(u):
    if 'twin_sweep' not in u:
        return
        return
    import random as _random
    rng = _random.Random(u['seed'])
    for _ in range(50):
        inner = _gen_case(rng, 'quick')
        if len(repr(inner)) < 1500:
            break
    yield from _twin.sweep(lambda c, i: _run_case(c), inner)
