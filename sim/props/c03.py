"""C03 — every request gets exactly one well-formed WSGI response.

E-wsgi: a handler *program* (result kind, response mutations, hooks, route hook,
custom error handler, method, path) is interpreted into real callbacks with thin
recording wrappers; the simulated server drives Ombott.__call__, optionally stops
iterating early (client disconnect), always calls close().  Faults: an exception
injected at exactly one callback entry the run reaches before the first body
chunk.  The recorded total order of events is checked by an independent PEP 3333
validator plus the hook/close/Content-Length clauses of the property.
"""
import random
import threading

from ..core import new_result, violation, Log, hx, unhx, digest
from ..wsgi import make_environ, call_app, validate
from .. import shrink
from .. import twin

PROP = 'C03'
LEVEL = 'exploration'
BATCH = 150
RUN_TIMEOUT = 3      # CPU-time watchdog: a request that is never answered (e.g. an endless cast loop)
TIERS = {
    'quick': {'runs': 900000, 'budget': 35},
    'thorough': {'runs': 8_000_000, 'budget': 480},
}
RULE = ('seeded handler programs: result kind (str, bytes, empty values, list/tuple/generator/custom iterables of str or '
        'bytes with 0-3 leading empty items, file-likes with/without close and with/without wsgi.file_wrapper, '
        'HTTPResponse/HTTPError returned, raised or yielded first, nested up to 3 deep, unsupported types) x response '
        'mutations (status incl. 100/101/204/304, headers, cookies) x 0-3 before/after hooks x route hook x custom '
        'error handlers x method x path (hit, 404, 405). Faults: one injected exception (Exception subclasses, '
        'unprintable exception, HTTPError, HTTPResponse) at a before-hook, route hook, handler entry, first next() of '
        'a generator, or inside a custom error handler; client disconnect after k items. Non-trivial = an injected '
        'fault was actually raised, or the server stopped early, or the response was produced through more than one '
        'cast-loop step (nested/iterable/error page). distinct = distinct program digests among non-trivial runs.')
COMPONENTS = {
    'real': ['ombott (Ombott.__call__/wsgi/_handle/_cast/_closeiter, Response, HTTPResponse, HTTPError, error_render, router)'],
    'simulated': ['WSGI server (environ, start_response recorder, iteration with early stop, close)', 'wsgi.file_wrapper (fake FileWrapper)',
                  'user callbacks generated from the program DSL with recording wrappers',
                  'clock of static_file (module attribute `time` of ombott.static_stream replaced by a constant clock)'],
    'stubbed': [],
}
ASSUMPTIONS = [
    'failing after-request hooks and exceptions raised after the first body chunk are outside the statement and are not injected',
    'handlers never set Content-Length themselves, so any Content-Length present was set by the framework',
    'response charsets other than UTF-8 are not generated (a lazily encoded chunk failing mid-stream is outside the statement)',
]

METHODS = ['GET', 'GET', 'GET', 'HEAD', 'HEAD', 'POST', 'PUT', 'DELETE', 'OPTIONS', 'PATCH']
STATUSES = [200, 201, 202, 204, 301, 304, 400, 404, 418, 500, 503, 100, 101, 299, '200 OK', '404 Nope', '204 Gone Fishing', 999]
NO_BODY = {100, 101, 204, 304}
BAD_STATUSES = [1000, 99, '200', 'nonsense', '9999 Way Too Big']     # refused by the response object (ValueError)
EXCS = ['ValueError', 'KeyError', 'Custom', 'Unprintable', 'HTTPError:418', 'HTTPError:500', 'HTTPError:404', 'HTTPResponse:202',
        'HTTPResponse:204', 'AssertionError', 'StopIteration', 'RuntimeError']
TEXTS = ['x', 'hello', 'héllo wörld', '日本', '', 'a' * 100, '<b>&</b>']


class CustomErr(Exception):
    pass


class Unprintable(Exception):
    def __repr__(self):
        raise RuntimeError('unprintable')

    def __str__(self):
        raise RuntimeError('unprintable')


def make_exc(name):
    import ombott
    if name.startswith('HTTPError:'):
        return ombott.HTTPError(int(name.split(':')[1]), 'injected')
    if name.startswith('HTTPResponse:'):
        return ombott.HTTPResponse('injected-body', int(name.split(':')[1]))
    return {'ValueError': ValueError('injected'), 'KeyError': KeyError('injected'), 'Custom': CustomErr('injected'),
            'Unprintable': Unprintable(), 'AssertionError': AssertionError('injected'),
            'StopIteration': StopIteration('injected'), 'RuntimeError': RuntimeError('injected')}[name]


# ---------------------------------------------------------------------------
# program generation
# ---------------------------------------------------------------------------

def gen_leaf(rng):
    r = rng.random()
    if r < 0.25:
        return {'k': 'str', 'v': rng.choice(TEXTS)}
    if r < 0.45:
        return {'k': 'bytes', 'v': hx(rng.choice([b'x', b'\x00\xff', b'bytes!', b'']))}
    if r < 0.6:
        return {'k': 'empty', 'v': rng.choice(['none', 'str', 'bytes', 'list', 'zero', 'false', 'tuple', 'dict'])}
    if r < 0.9:
        n = rng.choice([0, 1, 1, 2, 3, 5])
        item = rng.choice(['str', 'bytes'])
        items = [rng.choice(TEXTS[:6]) or 'z' for _ in range(n)]
        return {'k': 'seq', 'type': rng.choice(['list', 'tuple', 'gen', 'gen', 'iter_close', 'iter_noclose']), 'item': item,
                'lead': rng.choice([0, 0, 1, 2, 3]), 'items': items, 'mixed_empty': rng.random() < 0.2}
    if r < 0.97:
        return {'k': 'file', 'close': rng.random() < 0.6, 'data': hx(rng.choice([b'', b'filedata', b'x' * 200000])),
                'iterable': rng.random() < 0.3}
    return {'k': 'unsupported', 'v': rng.choice(['int', 'object', 'float', 'list_of_int', 'gen_of_none_then_int'])}


def gen_result(rng, depth=0):
    r = rng.random()
    if depth < 3 and r < 0.35:
        cls = rng.choice(['HTTPResponse', 'HTTPResponse', 'HTTPError'])
        how = rng.choice(['return', 'raise', 'yield'])
        spec = {'k': 'resp', 'cls': cls, 'status': rng.choice(STATUSES), 'how': how,
                'headers': gen_headers(rng) if rng.random() < 0.5 else []}
        if rng.random() < 0.15:
            spec['cookie'] = rng.choice(['plain', 'Łódź', '日本'])
        if cls == 'HTTPError':
            spec['body'] = {'k': 'str', 'v': rng.choice(TEXTS)}
            if isinstance(spec['status'], int) and spec['status'] < 400 and rng.random() < 0.5:
                spec['status'] = rng.choice([400, 403, 404, 418, 500, 501])
        else:
            spec['body'] = gen_result(rng, depth + 1)
        if how == 'yield':
            spec['lead'] = rng.choice([0, 0, 1, 2])
            spec['gen_type'] = rng.choice(['gen', 'list', 'iter_close'])
        return spec
    return gen_leaf(rng)


def gen_headers(rng):
    out = []
    for _ in range(rng.choice([1, 1, 2, 3])):
        out.append([rng.choice(['X-A', 'X-B', 'Cache-Control', 'X-Unicode', 'Content-Language', 'Allow', 'Last-Modified']),
                    rng.choice(['1', 'v', 'no-cache', 'ünï', 'a b c', ''])])
    return out


def _gen_case(rng, tier):
    case = {
        'method': rng.choice(METHODS),
        'path': rng.choice(['hit', 'hit', 'hit', 'hit', 'hit', 'hit', 'hit', 'hit', 'miss', 'miss', 'wrong_method', 'wrong_method',
                            'miss_scoped']),
        'result': gen_result(rng),
        'mutations': [],
        'before': rng.choice([0, 0, 1, 2, 3]),
        'after': rng.choice([0, 0, 1, 2, 3]),
        'route_hook': rng.random() < 0.3,
        'error_handlers': [],
        'file_wrapper': rng.random() < 0.5,
        'stop_after': rng.choice([None, None, None, None, 0, 1, 2]),
        'accept_json': rng.random() < 0.15,
        'fault': None,
    }
    if rng.random() < 0.07:
        # the handler reads a malformed / oversized body: the answer is one of the process-wide errors_map
        # responses, the same object for every such request; a priming request with another URL goes first
        case['result'] = {'k': 'read_body', 'bad': rng.choice(['chunk', 'big', 'json'])}
        case['method'] = rng.choice(['POST', 'PUT'])
        case['path'] = 'hit'
        case['query'] = 'q=' + 'x' * rng.choice([0, 1, 7, 30])
        case['prime'] = {'query': 'p=' + 'y' * rng.choice([0, 3, 12, 40]), 'accept_json': rng.random() < 0.4} \
            if rng.random() < 0.8 else None
    for _ in range(rng.choice([0, 0, 1, 2, 3])):
        r = rng.random()
        if r < 0.03:
            # a status the response object refuses: the handler fails there (one more handler failure)
            case['mutations'].append(['status', rng.choice(BAD_STATUSES)])
        elif r < 0.4:
            case['mutations'].append(['status', rng.choice(STATUSES)])
        elif r < 0.75:
            h = gen_headers(rng)[0]
            case['mutations'].append(['header', h[0], h[1]])
        else:
            case['mutations'].append(['cookie', rng.choice(['sid', 'c2']),
                                      rng.choice(['v1', 'a b', 'ünï', 'Łódź', '日本語', 'x;y,z"q', 'Привет'])])
    for code in rng.sample([404, 405, 500, 418, 400, 413], rng.choice([0, 0, 1, 2])):
        case['error_handlers'].append([code, rng.choice(['str', 'bytes', 'list', 'empty', 'str', 'bytes', 'list', 'empty', 'cycle'])])
    if rng.random() < 0.08:
        # an application with a domain map; clients that send no Host header (HTTP/1.0) or an odd one
        case['domain_map'] = rng.choice(['none', 'none', 'prefix'])
        case['host'] = rng.choice([None, None, 'sim.test', 'Sim.Test:8080', ''])
    if rng.random() < 0.1:
        case['path_suffix'] = rng.choice(['/café', '/€uro', '/日本', '/a b', '/%zz'])     # non-ASCII / odd path segments
    if rng.random() < 0.08:
        # served by the module-level default application, the handler uses the module-level helpers
        # (static_file / redirect / abort read ombott.request / ombott.response)
        case['use_default'] = True
        h = rng.choice(['static', 'static', 'static', 'redirect', 'abort'])
        if h == 'static':
            case['result'] = {'k': 'static', 'name': rng.choice(['hello.txt', 'data.bin', 'missing.txt', '../c03.py', 'hello.txt']),
                              'download': rng.random() < 0.3}
            hdrs = {}
            if rng.random() < 0.3:
                hdrs['Range'] = rng.choice(['bytes=0-4', 'bytes=5-', 'bytes=-3', 'bytes=900-', 'bytes=2-1', 'items=1-2', 'bytes=0-0'])
            if rng.random() < 0.2:
                hdrs['If-Modified-Since'] = rng.choice(['Mon, 01 Jan 2035 00:00:00 GMT', 'Thu, 01 Jan 1970 00:00:00 GMT', 'garbage'])
            case['req_headers'] = hdrs
            if rng.random() < 0.3:
                case['prime_static'] = rng.choice([{'Range': 'bytes=9-17'}, {'Range': 'bytes=0-0'}, {'Range': 'bytes=-3'},
                                                   {'If-Modified-Since': 'Mon, 01 Jan 2035 00:00:00 GMT'}, {'Range': 'bytes=5-'}, {}])
            if rng.random() < 0.12:
                # a file several times as large as the block size static_file streams with, ranges across block edges
                case['result']['name'] = rng.choice(['big.bin', 'big.bin', 'link.bin'])
                case['req_headers'] = {'Range': rng.choice(['bytes=0-1572863', 'bytes=5-1200000', 'bytes=1048570-1048590', 'bytes=-1500000',
                                                           'bytes=0-', 'bytes=1048576-', 'bytes=100-2097251', 'bytes=0-1048575'])} \
                    if rng.random() < 0.8 else {}
        elif h == 'redirect':
            case['result'] = {'k': 'redirect', 'to': rng.choice(['/elsewhere', 'relative/x', 'http://other.test/a?b=c', '/ü']),
                              'code': rng.choice([None, 301, 307])}
        else:
            case['result'] = {'k': 'abort', 'code': rng.choice([400, 401, 404, 418, 500, 503]), 'text': rng.choice(TEXTS) or 'x'}
    if case['before'] and case['path'] not in ('miss', 'miss_scoped') and rng.random() < 0.12:
        case['rewrite'] = rng.choice(['path', 'method'])
    primed = (case['result'].get('k') == 'read_body' and case.get('prime')) or case.get('prime_static') is not None
    if case['before'] and not primed and rng.random() < 0.06:
        case['oneshot'] = rng.randrange(case['before'])      # this before-request hook unregisters itself when it runs
    if case['after'] and not primed and rng.random() < 0.06:
        case['after_adds'] = rng.randrange(case['after'])     # this after-request hook registers one more hook when it runs
    if rng.random() < 0.04:
        # a header value that cannot be encoded when the header list is built (after the cast): still one 500, no escape
        case['mutations'].append(['header', 'X-A', 'bad\udcffvalue'])
    if case['method'] == 'HEAD' and case['result'].get('k') == 'seq' and case['result']['type'] == 'iter_close' \
            and rng.random() < 0.3:
        case['result']['close_raises'] = True     # the framework itself closes the iterable of a HEAD response
    if rng.random() < 0.5:
        sites = ['handler', 'gen_first_next']
        sites += [f'before:{j}' for j in range(case['before'])]
        if case['route_hook']:
            sites.append('route_hook')
        if case['error_handlers']:
            sites.append('error_handler')
        case['fault'] = {'at': rng.choice(sites), 'exc': rng.choice(EXCS)}
    return case


def gen_case(rng, tier):
    return twin.maybe_wrap(rng, _gen_case(rng, tier), 0.04, est_steps=700,
                           ok=lambda c: c.get('oneshot') is None and c.get('after_adds') is None)


def summarise(case):
    return case


# ---------------------------------------------------------------------------
# interpretation into real callbacks
# ---------------------------------------------------------------------------

class Ctx:
    def __init__(self, case, events):
        self.case = case
        self.ev = events
        self.fault = case.get('fault')
        self.fault_raised = False
        self.iterables = []     # tracking records of handler iterables
        self.cast_items = 0

    def maybe_fault(self, site):
        f = self.fault
        if f and f['at'] == site and not self.fault_raised:
            self.fault_raised = True
            self.ev.append(('fault-raised', site, f['exc']))
            raise make_exc(f['exc'])


class TrackedIter:
    """custom iterable with (optional) close; records pulls and closes"""

    close_raises = False

    def __init__(self, ctx, items, has_close, label):
        self.ctx = ctx
        self.items = items
        self.rec = {'label': label, 'pulled': 0, 'closes': 0, 'has_close': has_close, 'kind': 'iter'}
        ctx.iterables.append(self.rec)
        if has_close:
            self.close = self._close

    def __iter__(self):
        first = True
        for it in self.items:
            if first:
                first = False
                self.ctx.maybe_fault('gen_first_next')
            self.rec['pulled'] += 1
            if isinstance(it, (str, bytes)) and it:
                self.rec['nonempty'] = self.rec.get('nonempty', 0) + 1
            self.ctx.ev.append(('iter-item', self.rec['label']))
            yield it

    def _close(self):
        self.rec['closes'] += 1
        self.ctx.ev.append(('iter-close', self.rec['label']))
        if self.close_raises:
            raise RuntimeError('close() of the handler iterable failed')


def tracked_gen(ctx, items, label):
    rec = {'label': label, 'pulled': 0, 'closes': 0, 'has_close': True, 'kind': 'gen', 'finalised': 0}
    ctx.iterables.append(rec)

    def g():
        try:
            ctx.maybe_fault('gen_first_next')
            for it in items:
                rec['pulled'] += 1
                if isinstance(it, (str, bytes)) and it:
                    rec['nonempty'] = rec.get('nonempty', 0) + 1
                ctx.ev.append(('iter-item', label))
                yield it
        finally:
            rec['finalised'] += 1
            ctx.ev.append(('gen-finalised', label))
    return g()


class FileLike:
    def __init__(self, ctx, data, has_close, iterable, label):
        self.ctx = ctx
        self.data = data
        self.pos = 0
        self.rec = {'label': label, 'pulled': 0, 'closes': 0, 'has_close': has_close, 'kind': 'file'}
        ctx.iterables.append(self.rec)
        if has_close:
            self.close = self._close
        if iterable:
            self.__class__ = FileLikeIter

    def read(self, n=-1):
        if n is None or n < 0:
            n = len(self.data) - self.pos
        out = self.data[self.pos:self.pos + n]
        self.pos += len(out)
        self.rec['pulled'] += 1
        self.ctx.ev.append(('file-read', len(out)))
        return out

    def _close(self):
        self.rec['closes'] += 1
        self.ctx.ev.append(('iter-close', self.rec['label']))


class FileLikeIter(FileLike):
    def __iter__(self):
        while True:
            b = self.read(8192)
            if not b:
                return
            yield b


class FakeFileWrapper:
    """what a server's wsgi.file_wrapper does (wsgiref.util.FileWrapper semantics)"""

    def __init__(self, filelike, blksize=8192):
        self.filelike = filelike
        self.blksize = blksize
        if hasattr(filelike, 'close'):
            self.close = filelike.close

    def __iter__(self):
        return self

    def __next__(self):
        data = self.filelike.read(self.blksize)
        if data:
            return data
        raise StopIteration


BIG_SIZE = 2 * 1024 * 1024 + 4096 + 7        # more than twice the block size static_file streams with, and no multiple of it
_BIG = {}


def _big_root():
    """A directory holding big.bin: a sparse file of BIG_SIZE zero bytes with a fixed modification time, so that a range
    spanning several of static_file's read blocks costs no disk space and Last-Modified is the same in every process.
    Created on demand (atomically; shared by all processes of this user, nothing depends on it being there beforehand)."""
    import os
    import tempfile
    if 'dir' not in _BIG:
        d = os.path.join(tempfile.gettempdir(), 'simcheck-c03-static-%d' % os.getuid())
        os.makedirs(d, exist_ok=True)
        fn = os.path.join(d, 'big.bin')
        try:
            st = os.stat(fn)
            ok = st.st_size == BIG_SIZE and int(st.st_mtime) == 1000000000
        except OSError:
            ok = False
        if not ok:
            tmp = fn + '.%d' % os.getpid()
            with open(tmp, 'wb') as f:
                f.truncate(BIG_SIZE)
            os.utime(tmp, (1000000000, 1000000000))
            os.replace(tmp, fn)
        # a symbolic link inside the served directory (to a file inside it)
        ln = os.path.join(d, 'link.bin')
        if not os.path.islink(ln):
            tmp = ln + '.%d' % os.getpid()
            try:
                os.symlink('big.bin', tmp)
                os.replace(tmp, ln)
            except OSError:
                pass
        _BIG['dir'] = d
    return _BIG['dir']


def build(spec, ctx, label='r'):
    """-> python object for a result spec; for how='raise' raises"""
    import ombott
    k = spec['k']
    if k == 'static':
        import os
        root = os.path.join(os.path.dirname(os.path.dirname(os.path.abspath(__file__))), 'apps', 'static')
        if spec['name'] in ('big.bin', 'link.bin'):
            root = _big_root()
        return ombott.static_file(spec['name'], root, download=spec.get('download', False))
    if k == 'redirect':
        ombott.redirect(spec['to'], spec.get('code'))
    if k == 'abort':
        ombott.abort(spec['code'], spec['text'])
    if k == 'read_body':
        rq = ctx.app.request
        if spec['bad'] == 'json':
            return repr(rq.json)
        return rq.body.read()
    sfx = getattr(ctx, 'suffix', '')
    if k == 'str':
        return spec['v'] + sfx if spec['v'] else spec['v']
    if k == 'bytes':
        b = unhx(spec['v'])
        return b + sfx.encode() if b else b
    if k == 'empty':
        return {'none': None, 'str': '', 'bytes': b'', 'list': [], 'zero': 0, 'false': False, 'tuple': (), 'dict': {}}[spec['v']]
    if k == 'unsupported':
        if spec['v'] == 'list_of_int':
            return [1, 2]
        if spec['v'] == 'gen_of_none_then_int':
            return tracked_gen(ctx, [None, '', 5], label)
        return {'int': 5, 'object': object(), 'float': 1.5}[spec['v']]
    if k == 'seq':
        conv = (lambda s: s) if spec['item'] == 'str' else (lambda s: s.encode('utf8'))
        empty = '' if spec['item'] == 'str' else b''
        empties = [empty, None, empty] if spec.get('mixed_empty') else [empty] * 3
        items = empties[:spec['lead']] + [conv(s + sfx) for s in spec['items']]
        t = spec['type']
        if t == 'list':
            return items
        if t == 'tuple':
            return tuple(items)
        if t == 'gen':
            return tracked_gen(ctx, items, label)
        ti = TrackedIter(ctx, items, t == 'iter_close', label)
        ti.close_raises = bool(spec.get('close_raises'))
        return ti
    if k == 'file':
        return FileLike(ctx, unhx(spec['data']), spec['close'], spec.get('iterable'), label)
    if k == 'resp':
        status = spec['status']
        hdrs = {}
        for hk, hv in spec.get('headers', []):
            hdrs[hk] = hv
        if spec['cls'] == 'HTTPError':
            obj = ombott.HTTPError(status, spec['body']['v'], **{hk.replace('-', '_'): hv for hk, hv in hdrs.items()})
        else:
            body = build(spec['body'], ctx, label + 'b')
            obj = ombott.HTTPResponse(body, status, hdrs or None)
        if spec.get('cookie'):
            obj.set_cookie('rc', spec['cookie'])
        if spec['how'] == 'raise':
            raise obj
        if spec['how'] == 'yield':
            empties = ['', None, b''][:spec.get('lead', 0)]
            items = empties + [obj, 'never-reached']
            gt = spec.get('gen_type', 'gen')
            if gt == 'list':
                return items
            if gt == 'gen':
                return tracked_gen(ctx, items, label + 'y')
            return TrackedIter(ctx, items, True, label + 'y')
        return obj
    raise AssertionError(k)


_TL = threading.local()


def _cur():
    """The per-thread context of the request being served (twin runs serve one program on several threads)."""
    return _TL.ctx


class _SimClock:
    """The clock seam of static_file (its `time` module attribute): a constant, so that the Date header of a 304 -
    the only use of a clock in the code under test - is the same in every execution of a run."""
    NOW = 1893456000.0      # 2030-01-01T00:00:00Z

    def time(self):
        return self.NOW

    def __getattr__(self, name):
        import time as _time
        return getattr(_time, name)


def setup_app(case):
    """Application with the program's callbacks; the callbacks find their per-request context through _cur()."""
    import ombott
    import ombott.static_stream as _ss
    if not isinstance(_ss.time, _SimClock):
        _ss.time = _SimClock()
    if case.get('use_default'):
        # the process-wide default application, put back into its pristine configuration first
        # (generic: every instance attribute is taken over from a newly constructed application, except the request /
        # response objects, which the module-level names ombott.request / ombott.response refer to)
        app = ombott.default_app()
        fresh = ombott.Ombott()
        keep = ('request', 'response', '__dict__', '__weakref__')
        names = [n for c in type(app).__mro__ for n in getattr(c, '__slots__', ())] + list(fresh.__dict__)
        for k in list(app.__dict__):
            if k not in keep and k not in fresh.__dict__:
                del app.__dict__[k]
        for k in names:
            if k not in keep and hasattr(fresh, k):
                setattr(app, k, getattr(fresh, k))
        app.setup({})
    else:
        app = ombott.Ombott()
    resp_obj = app.response

    bhooks = {}
    for j in range(case['before']):
        def bh(j=j):
            ctx = _cur()
            ctx.ev.append(('before', j))
            if case.get('oneshot') == j:
                app.remove_hook('before_request', bhooks[j])
            if j == 0 and case.get('rewrite'):
                # a before-request hook that routing depends on (prefix stripping / method override)
                if case['rewrite'] == 'path':
                    app.request['PATH_INFO'] = '/r/sub'
                else:
                    app.request['REQUEST_METHOD'] = case['method']
            ctx.maybe_fault(f'before:{j}')
        bhooks[j] = bh
        if j % 2:
            app.on('before_request', bh)
        else:
            app.add_hook('before_request', bh)
    for j in range(case['after']):
        def ah(j=j):
            _cur().ev.append(('after', j))
            if case.get('after_adds') == j:
                app.add_hook('after_request', lambda: _cur().ev.append(('after', 99)))
        app.add_hook('after_request', ah)

    def handler():
        ctx = _cur()
        ctx.ev.append(('handler',))
        for m in case['mutations']:
            if m[0] == 'status':
                resp_obj.status = m[1]
            elif m[0] == 'header':
                resp_obj.headers[m[1]] = m[2]
            elif m[0] == 'cookie':
                resp_obj.set_cookie(m[1], m[2])
        ctx.maybe_fault('handler')
        return build(case['result'], ctx)

    route_methods = ['GET', 'POST', 'PUT', 'DELETE', 'OPTIONS', 'PATCH']
    if case['path'] == 'wrong_method':
        route_methods = [m for m in ['PUT', 'DELETE'] if m != case['method']] or ['PATCH']
        if case['method'] == 'HEAD':
            route_methods = ['POST']
    app.route('/r/sub', method=route_methods, callback=handler)
    if case['path'] == 'miss_scoped':
        # a 404 handler scoped to a URL prefix: for a path below /r that matches no route the program's handler runs
        # as that handler (any outcome a route handler can have)
        app.error(404, rule='/r')(lambda prefix, params: handler())
    if case['route_hook']:
        def rh(prefix):
            ctx = _cur()
            ctx.ev.append(('route_hook', prefix))
            ctx.maybe_fault('route_hook')
        app.on_route('/r', rh)
    for code, kind in case['error_handlers']:
        def eh(err, code=code, kind=kind):
            import ombott as _o
            ctx = _cur()
            ctx.ev.append(('error_handler', code))
            ctx.maybe_fault('error_handler')
            if kind == 'cycle':
                return _o.HTTPError(code, 'again')     # a response cycle: only the cast loop's guard ends it
            return {'str': f'custom {code}', 'bytes': b'custom', 'list': ['cus', 'tom'], 'empty': ''}[kind]
        app.error(code)(eh)
    cfg = {}
    if case['result']['k'] == 'read_body':
        cfg['max_body_size'] = 100
    if case.get('domain_map'):
        # 'prefix': requests for host sim.test are served under the application name 'shop'
        cfg['domain_map'] = (lambda host: None) if case['domain_map'] == 'none' else \
            (lambda host: 'shop' if host and host.lower().startswith('sim.test') else None)
        cfg['app_name_header'] = 'HTTP_X_APP_NAME'
        if case['domain_map'] == 'prefix':
            app.route('/shop/r/sub', method=route_methods, callback=handler)
    if cfg:
        app.setup(cfg)
    return app


def run_case(case):
    if 'twin' in case:
        box = []
        return twin.run(lambda inner, i: serve_and_check(inner, box[0], 'Zz' * i), case, shared_bodyreq=False,
                        before=lambda: box.append(setup_app(case['twin'])),
                        step_cap=1_500_000, cap_violation='C03:no-answer')
    return serve_and_check(case, setup_app(case), '')


def serve_and_check(case, app, suffix):
    res = new_result()
    log = Log(case.get('_seed'))
    events = []
    ctx = Ctx(case, events)
    ctx.suffix = suffix
    _TL.ctx = ctx
    path = '/nowhere' if case['path'] == 'miss' else '/r/sub'
    if case['path'] == 'miss_scoped':
        path = '/r/elsewhere'
    if case.get('rewrite') == 'path' and case['path'] not in ('miss', 'miss_scoped'):
        path = '/alias/of/it'
    if case.get('path_suffix') and case['path'] == 'miss':
        # WSGI hands PATH_INFO over as latin-1 decoded bytes
        path = path + case['path_suffix'].encode('utf8').decode('latin1')
    ctx.app = app

    def environ(query, accept_json, req_headers=None):
        kw = {}
        if case['result']['k'] == 'read_body':
            import io
            bad = case['result']['bad']
            if bad == 'chunk':
                kw = {'stream': io.BytesIO(b'5\r\nabc'), 'chunked': True}
            elif bad == 'big':
                kw = {'stream': io.BytesIO(b'z' * 300), 'content_length': 300}
            else:
                kw = {'stream': io.BytesIO(b'{"a": ]'), 'content_length': 7, 'content_type': 'application/json'}
        method = case['method']
        if case.get('rewrite') == 'method':
            method = 'TRACE'        # the before-request hook puts the real method back before routing
        hdrs = dict((case.get('req_headers') if req_headers is None else req_headers) or {})
        if accept_json:
            hdrs['Accept'] = 'application/json'
        env = make_environ(method, path, query + suffix, file_wrapper=(FakeFileWrapper if case['file_wrapper'] else None),
                           headers=hdrs or None, **kw)
        if 'host' in case:
            if case['host'] is None:
                env.pop('HTTP_HOST', None)
            else:
                env['HTTP_HOST'] = case['host']
        return env

    if case['result']['k'] == 'read_body':
        if case.get('prime'):
            saved_fault, ctx.fault = ctx.fault, None
            call_app(app, environ(case['prime']['query'], case['prime']['accept_json']))
            ctx.fault = saved_fault
            del events[:]
            del ctx.iterables[:]
            res['probes']['primed_shared_error_response'] += 1
    if case['result']['k'] == 'static' and case.get('prime_static') is not None:
        # an earlier request for the same file with other request headers (a range, a conditional request)
        saved_fault, ctx.fault = ctx.fault, None
        call_app(app, environ('', False, req_headers=case['prime_static']))
        ctx.fault = saved_fault
        del events[:]
        del ctx.iterables[:]
        res['probes']['primed_static_file'] += 1
    env = environ(case.get('query', ''), case.get('accept_json'))
    r = call_app(app, env, stop_after=case['stop_after'], on_event=lambda *a: events.append(a))

    for e in events:
        log(*e)
    log('status', r.status, 'headers', digest(r.headers), 'body', digest(r.body))

    # ---- PEP 3333 clauses ----
    for clause, msg in validate(r, method=case['method']):
        if clause == 'close-escape' and case['result'].get('close_raises'):
            # the handler iterable's own close() fails: whether that surfaces as the last-resort 500 (the framework closes
            # the iterable of a bodyless response itself) or from the close() the server calls on the result is not for
            # the statement to say - it speaks of failures before the first chunk; what stays judged: nothing escapes
            # app(), one well-formed start_response, no body, the iterable closed exactly once
            res['probes']['failing_close_surfaced_at_server_close'] += 1
            continue
        violation(res, f'C03:{clause}', msg)
    code = r.code
    fault = case.get('fault')
    # ---- no body for HEAD / 1xx / 204 / 304 ----
    if r.escaped is None and code is not None:
        bodyless = case['method'] == 'HEAD' or code in NO_BODY
        if bodyless and r.body:
            violation(res, 'C03:body-on-bodyless', f'{case["method"]} {code} response carries {len(r.body)} body bytes')
        # ---- Content-Length ----
        cls = r.header_all('Content-Length')
        if len(cls) > 1:
            violation(res, 'C03:content-length-dup', f'{len(cls)} Content-Length headers')
        if cls and not bodyless and not r.stopped_early and r.iter_error is None:
            try:
                n = int(cls[0])
            except ValueError:
                n = None
            if n != len(r.body):
                violation(res, 'C03:content-length-mismatch',
                          f'Content-Length {cls[0]!r} but {len(r.body)} body bytes were returned (status {code})')
    # ---- handler failures become 500 (or the injected HTTP response's status) ----
    if ctx.fault_raised and r.escaped is None and code is not None:
        exc = fault['exc']
        if fault['at'] == 'error_handler':
            want = {500} if ':' not in exc else None       # custom handler failing: last-resort 500 page
        elif ':' in exc:
            want = {int(exc.split(':')[1])}
        else:
            want = {500}
        cyc = {c for c, kind in case['error_handlers'] if kind == 'cycle'}
        if want is not None and any(e[0] == 'error_handler' and e[1] in cyc for e in events):
            want = want | {500}      # a response cycle ends in the cast loop's own 500
        if want is not None and code not in want:
            violation(res, 'C03:fault-status', f'{exc} injected at {fault["at"]} answered {r.status!r}, expected {sorted(want)}')
    # ---- module-level helpers on the default application ----
    if case.get('use_default') and case['path'] == 'hit' and not ctx.fault_raised and r.escaped is None \
            and 'handler' in [e[0] for e in events] and not case.get('error_handlers') \
            and not any(m[0] == 'header' and '\udcff' in m[2] for m in case['mutations']) \
            and not any(m[0] == 'status' and m[1] in BAD_STATUSES for m in case['mutations']):
        rk = case['result']
        want = None
        if rk['k'] == 'abort':
            want = {rk['code']}
        elif rk['k'] == 'redirect':
            want = {rk['code']} if rk.get('code') else {302, 303}
            if not r.header('Location'):
                violation(res, 'C03:helper-result', f'redirect({rk["to"]!r}) answered {r.status!r} without a Location header')
        elif rk['k'] == 'static':
            hdrs = case.get('req_headers') or {}
            if rk['name'] in ('missing.txt',):
                want = {404}
            elif rk['name'].startswith('..'):
                want = {403}
            elif not hdrs:
                want = {200}
                import os
                fn = os.path.join(os.path.dirname(os.path.dirname(os.path.abspath(__file__))), 'apps', 'static', rk['name'])
                data = open(fn, 'rb').read() if rk['name'] not in ('big.bin', 'link.bin') else bytes(BIG_SIZE)
                if case['method'] != 'HEAD' and not r.stopped_early and r.body != data and code == 200:
                    violation(res, 'C03:helper-result', f'static_file({rk["name"]!r}) delivered {len(r.body)} bytes, the file has {len(data)}')
            else:
                want = {200, 206, 304, 416}
        if want is not None and code not in want:
            violation(res, 'C03:helper-result', f'{rk} through the default application answered {r.status!r}, expected one of {sorted(want)}')
        res['probes']['default_app_helper:' + rk['k']] += 1
    # ---- hooks ----
    befores = [e[1] for e in events if e[0] == 'before']
    afters = [e[1] for e in events if e[0] == 'after']
    nb, na = case['before'], case['after']
    fail_idx = None
    if ctx.fault_raised and fault['at'].startswith('before:'):
        fail_idx = int(fault['at'].split(':')[1])
    want_b = list(range(nb)) if fail_idx is None else list(range(fail_idx + 1))
    if befores != want_b:
        violation(res, 'C03:before-hooks', f'before_request hooks ran {befores}, expected {want_b}')
    want_a = list(range(na - 1, -1, -1))
    if afters != want_a:
        violation(res, 'C03:after-hooks', f'after_request hooks ran {afters}, expected {want_a} (path={case["path"]}, fault={fault})')
    # ordering: before-hooks before the handler/route hook; after-hooks after the handler and before start_response
    names = [e[0] for e in events]
    if 'handler' in names:
        hi = names.index('handler')
        if any(n == 'before' for n in names[hi:]):
            violation(res, 'C03:hook-order', 'a before_request hook ran after the handler')
        if any(n == 'after' for n in names[:hi]):
            violation(res, 'C03:hook-order', 'an after_request hook ran before the handler')
        if 'route_hook' in names and names.index('route_hook') > hi:
            violation(res, 'C03:hook-order', 'route hook ran after the handler')
    if 'start_response' in names and 'after' in names:
        if max(i for i, n in enumerate(names) if n == 'after') > names.index('start_response'):
            violation(res, 'C03:hook-order', 'an after_request hook ran after start_response')
    blocked = ctx.fault_raised and (fault['at'].startswith('before:') or fault['at'] == 'route_hook')
    if case['path'] == 'hit' and not blocked and r.escaped is None and 'handler' not in names:
        violation(res, 'C03:handler-not-reached',
                  f'{case["method"]} request for a registered route (rewrite by before-request hook: {case.get("rewrite")}) '
                  f'was answered {r.status!r} without the handler running: hooks did not run before routing')
    if names.count('handler') > 1:
        violation(res, 'C03:handler-twice', 'handler invoked more than once')
    # ---- close: an iterable that produced output is closed exactly once ----
    # _cast returns as soon as it has peeked a non-empty str/bytes item, so an iterable from which the framework
    # pulled such an item IS the response iterable (whatever happens to the body afterwards: HEAD, 204, early stop).
    for rec in ctx.iterables:
        if rec['kind'] == 'file':
            produced = rec['pulled'] > 0
        else:
            produced = rec.get('nonempty', 0) > 0
        if not rec['has_close']:
            continue
        if rec['kind'] == 'gen':
            if produced and rec['finalised'] != 1:
                violation(res, 'C03:iterable-not-closed',
                          f'generator {rec["label"]} produced output but was never closed/finalised '
                          f'(method {case["method"]}, status {code}, stopped early: {r.stopped_early})')
        else:
            if produced and rec['closes'] != 1:
                violation(res, 'C03:iterable-close-count',
                          f'{rec["kind"]} {rec["label"]} produced output and was closed {rec["closes"]} times '
                          f'(method {case["method"]}, status {code}, stopped early: {r.stopped_early})')
            elif rec['closes'] > 1:
                violation(res, 'C03:iterable-close-count', f'{rec["kind"]} {rec["label"]} closed {rec["closes"]} times')
    # ---- fired / probes ----
    f = res['fired']
    if ctx.fault_raised:
        f['exception@' + fault['at'].split(':')[0]] += 1
    if r.stopped_early:
        f['client_disconnect'] += 1
    depth = _depth(case['result'])
    if depth > 1 or case['result']['k'] in ('seq', 'file'):
        f['multi_step_cast'] += 1
    p = res['probes']
    p['result:' + case['result']['k'] + (':' + case['result'].get('how', '') if case['result']['k'] == 'resp' else '')] += 1
    p['method:' + case['method']] += 1
    p['path:' + case['path']] += 1
    p['status_class:%sxx' % (str(code)[0] if code else '?')] += 1
    if case['file_wrapper'] and case['result']['k'] == 'file':
        p['file_with_wrapper'] += 1
    if case['result']['k'] == 'file' and not case['file_wrapper']:
        p['file_without_wrapper'] += 1
    if any(c[2] for c in r.sr_calls):
        p['last_resort_500_page'] += 1
    p['nest_depth:%d' % depth] += 1
    res['steps'] = len(events)
    res['nontrivial'] = bool(f)
    res['digest'] = log.digest()
    return res


def _depth(spec):
    d = 1
    while spec.get('k') == 'resp' and isinstance(spec.get('body'), dict):
        spec = spec['body']
        d += 1
    return d


def shrink_candidates(case):
    if 'twin' in case:
        yield from twin.shrink_candidates(case, shrink_candidates)
        return
    for k in ('rewrite', 'oneshot', 'after_adds', 'domain_map', 'path_suffix', 'host'):
        if case.get(k) is not None or k in case:
            c = dict(case)
            c.pop(k)
            yield c
    if case['fault'] is not None:
        yield dict(case, fault=None)
    if case['stop_after'] is not None:
        yield dict(case, stop_after=None)
    for k in ('before', 'after'):
        if case[k]:
            if k == 'before' and (case.get('rewrite') or case.get('oneshot') is not None) and case[k] == 1:
                continue
            if k == 'before' and case.get('oneshot') is not None and case['oneshot'] >= case[k] - 1:
                continue
            if k == 'after' and case.get('after_adds') is not None and case['after_adds'] >= case[k] - 1:
                continue
            c = dict(case)
            c[k] = case[k] - 1
            if c.get('fault') and c['fault']['at'].startswith('before:') and int(c['fault']['at'].split(':')[1]) >= c['before']:
                continue
            yield c
    if case['route_hook'] and not (case['fault'] and case['fault']['at'] == 'route_hook'):
        yield dict(case, route_hook=False)
    for ms in shrink.list_cands(case['mutations']):
        yield dict(case, mutations=ms)
    for es in shrink.list_cands(case['error_handlers']):
        yield dict(case, error_handlers=es)
    if case['accept_json']:
        yield dict(case, accept_json=False)
    if case['file_wrapper']:
        yield dict(case, file_wrapper=False)
    if case.get('prime_static') is not None:
        c = dict(case)
        del c['prime_static']
        yield c
    if case.get('prime') and case['prime'].get('accept_json'):
        yield dict(case, prime=dict(case['prime'], accept_json=False))
    if case['method'] != 'GET' and case['result']['k'] != 'read_body':
        yield dict(case, method='GET')
    r = case['result']
    if r['k'] == 'resp' and isinstance(r.get('body'), dict) and r['cls'] == 'HTTPResponse':
        yield dict(case, result=r['body'])
        for leaf in ({'k': 'str', 'v': 'x'},):
            yield dict(case, result=dict(r, body=leaf))
    if r['k'] == 'resp' and r.get('headers'):
        yield dict(case, result=dict(r, headers=[]))
    if r['k'] == 'seq':
        if r['lead']:
            yield dict(case, result=dict(r, lead=0))
        for it in shrink.list_cands(r['items']):
            yield dict(case, result=dict(r, items=it))
    if r['k'] not in ('str', 'read_body', 'static', 'redirect', 'abort'):
        yield dict(case, result={'k': 'str', 'v': 'x'})
    if case.get('fault') and case['fault']['exc'] != 'ValueError':
        yield dict(case, fault=dict(case['fault'], exc='ValueError'))


def setup_worker():
    twin.warm(_gen_case, lambda c: serve_and_check(c, setup_app(c), ''), n=150)


TWIN_SWEEPS = {'quick': 16, 'thorough': 400}


def sweep_units(tier, root):
    # exhaustive single pre-emption: one unit = one small program x every traced step of its solo run
    return [{'twin_sweep': i, 'seed': (root * 2654435761 + i * 40503) & 0xffffffff} for i in range(TWIN_SWEEPS[tier])]


def expand_unit(u):
    rng = random.Random(u['seed'])
    inner = _gen_case(rng, 'quick')
    while any(k == 'cycle' for _, k in inner['error_handlers']) or inner.get('oneshot') is not None \
            or inner.get('after_adds') is not None:
        inner = _gen_case(rng, 'quick')
    box = []
    kw = dict(shared_bodyreq=False, before=lambda: (box.clear(), box.append(setup_app(inner))),
              step_cap=1_500_000, cap_violation='C03:no-answer')
    yield from twin.sweep(lambda c, i: serve_and_check(c, box[0], 'Zz' * i), inner, **kw)
