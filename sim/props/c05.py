"""C05 — chunked transfer decoding is exact and rejects every truncation.

Fault-free configuration: body == concatenation of the chunk payloads.
Fault configurations (separate oracle each):
  truncate(k)  EOF at offset k: before the end of the zero-size chunk's line -> must be rejected
  crlf(...)    the CRLF after a chunk's data is broken -> must be rejected
  flip(k, b)   one byte of a size line / extension / size-line CRLF substituted -> accepted or 4xx, never 5xx/hang
"""
import random

from ..core import new_result, violation, Log, hx, unhx, digest
from ..stream import SimStream, SimHang, gen_schedule, simpler_schedules, temp_seam
from ..bodyreq import body_request, direct_api
from .. import gen_chunked as gc
from .. import shrink
from .c04 import gen_bytes

PROP = 'C05'
LEVEL = 'fault_enumeration'
BATCH = 300
TIERS = {
    'quick': {'runs': 600000, 'budget': 30},
    'thorough': {'runs': 5_000_000, 'budget': 420},
}
RULE = ('seeded runs: (chunk structure: sizes/hex case/leading zeros/extensions/last-chunk spelling/trailers, B, '
        'delivery schedule, one optional fault) from one PRNG per run; sweep units: for each generated small '
        'encoding EVERY strict prefix (EOF at each offset), EVERY way of breaking the CRLF after each chunk, and every '
        'framing byte of size lines substituted by a set of adversarial byte values, each under full, byte-wise and '
        'cut deliveries. Non-trivial = the fault was met by the reader (EOF hit at the cut / corrupted offset '
        'delivered) or a short read with more data following occurred inside a multi-chunk body. distinct = '
        'distinct case digests among non-trivial runs.')
COMPONENTS = {
    'real': ['ombott (Ombott.__call__, Request.body, _body_read, _iter_chunked, errors_map -> 400)', 'tempfile.TemporaryFile (subset)'],
    'simulated': ['wsgi.input (SimStream)', 'WSGI server', 'reference chunked encoder (sim.gen_chunked)'],
    'stubbed': ['temp file replaced by in-memory MemTemp in a subset of runs'],
}
ASSUMPTIONS = [
    'size lines (digits + extensions + CRLF) longer than max_memfile_size may be refused (anchored mechanism: size line scan bounded by the buffer size); such encodings only require {exact body, 4xx}',
    'chunk extensions follow RFC 7230 (token / quoted-string, no bare CR or LF)',
]

B_CHOICES = [3, 4, 5, 7, 8, 16, 64, 1024, 102400]


def _pick_fault(rng, case):
    wire, regions, end_last, payload, max_line = gc.build(case)
    r = rng.random()
    if r < 0.40:
        return None
    if r < 0.65:
        return {'kind': 'truncate', 'rel': gc.to_rel(regions, rng.randrange(0, len(wire)))}
    if r < 0.80 and case['chunks']:
        v, b = rng.choice(gc.CRLF_VARIANTS)
        return {'kind': 'crlf', 'chunk': rng.randrange(len(case['chunks'])), 'variant': v, 'byte': b}
    framing = [p for s, e, kind, idx in regions if kind in ('size', 'ext', 'size_crlf', 'last_size', 'last_ext', 'last_crlf')
               for p in range(s, e)]
    at = rng.choice(framing)
    b = rng.choice(gc.HEX_BAD_BYTES + [rng.getrandbits(8)])
    if b == wire[at]:
        b ^= 0x01
    return {'kind': 'flip', 'rel': gc.to_rel(regions, at), 'byte': b}


def _gen_case(rng, tier):
    B = rng.choice(B_CHOICES) if rng.random() < 0.93 else rng.choice([1, 2])
    st = gc.gen_structure(rng, min(B, 300), max_payload=(400 if tier == 'quick' else 4096),
                          max_chunks=(8 if tier == 'quick' else 12), adv_bytes=gen_bytes)
    case = dict(st)
    case['B'] = B
    case['fault'] = _pick_fault(rng, case)
    wire, *_ = gc.build(case)
    case['sched'] = gen_schedule(rng, len(wire), B)
    case['temp'] = 'mem' if rng.random() < 0.4 else 'real'
    case['via'] = 'direct' if rng.random() < 0.25 else 'wsgi'
    if case['via'] == 'wsgi' and case.get('fault') and rng.random() < 0.4:
        case['retry'] = True     # the handler touches the body again after the rejection
    if case['via'] == 'wsgi' and rng.random() < 0.1:
        # an application whose errors_map names only the base class of the request errors
        case['errors_map'] = 'base_only'
        if case.get('fault'):
            case['retry'] = True
    if case['via'] == 'wsgi' and rng.random() < 0.1:
        # a Content-Length header next to Transfer-Encoding: chunked: the transfer coding decides (RFC 7230 3.3.3)
        case['cl_too'] = rng.choice([0, 1, 5, 17, 100000])
    if case['via'] == 'wsgi' and rng.random() < 0.15:
        # the decoder's contract does not depend on what the payload is said to be: a multipart media type makes the
        # reader feed every piece to the multipart scanner as well (payloads that are no multipart at all included)
        case['ctype'] = rng.choice(['multipart/form-data; boundary=b0', 'multipart/form-data; boundary=b0',
                                    'application/x-www-form-urlencoded', 'application/json'])
    if case['via'] == 'wsgi' and rng.random() < 0.15:
        # a configured body limit the payload stays within (possibly far below the buffer size, and below the length
        # of a legal size line): the limit bounds the payload, not the framing
        plen = sum(len(ch['data']) // 2 for ch in case['chunks'])
        case['M'] = plen + rng.choice([0, 0, 1, 2, 7, 40])
    if rng.random() < 0.08:
        # another application of the same process answers request errors in its own (non-4xx) way
        case['foreign_app'] = True
    return case


def _sweep_units(tier, root):
    n = 40 if tier == 'quick' else 600
    return [{'seed': (root * 7919 + i * 104729) & 0xffffffff, 'i': i} for i in range(n)]


def _expand_unit(u):
    rng = random.Random(u['seed'])
    B = rng.choice([3, 4, 5, 7, 8, 16, 64])
    st = gc.gen_structure(rng, B, max_payload=60, max_chunks=4, adv_bytes=gen_bytes)
    base = dict(st)
    base['B'] = B
    base['temp'] = 'mem'
    base['via'] = 'direct' if u['i'] % 2 else 'wsgi'
    base['fault'] = None
    wire, regions, end_last, payload, max_line = gc.build(base)
    if len(wire) > 300:
        return
    cut_scheds = [{'mode': 'full'}, {'mode': 'regular', 'k': 1},
                  {'mode': 'rand', 'seed': rng.getrandbits(32), 'p': 0.5, 'max': 3}]

    def emit(fault, scheds):
        for sc in scheds:
            c = dict(base)
            c['fault'] = fault
            c['sched'] = sc
            yield c
    yield from emit(None, cut_scheds + [{'mode': 'cuts', 'cuts': [c]} for c in range(1, len(wire))])
    for k in range(0, len(wire)):
        yield from emit({'kind': 'truncate', 'rel': gc.to_rel(regions, k)}, cut_scheds[:2] + ([{'mode': 'cuts', 'cuts': [k // 2]}] if k > 1 else []))
    for i in range(len(base['chunks'])):
        for v, b in gc.CRLF_VARIANTS:
            yield from emit({'kind': 'crlf', 'chunk': i, 'variant': v, 'byte': b}, cut_scheds)
    for s, e, kind, idx in regions:
        if kind in ('size', 'ext', 'size_crlf', 'last_size', 'last_ext', 'last_crlf'):
            for p in range(s, e):
                for b in gc.HEX_BAD_BYTES:
                    if b != wire[p]:
                        yield from emit({'kind': 'flip', 'rel': gc.to_rel(regions, p), 'byte': b}, cut_scheds[:2])


def _summarise(case):
    c = dict(case)
    c['chunks'] = [dict(ch, data=(ch['data'][:40] + ('...' if len(ch['data']) > 40 else ''))) for ch in case['chunks']]
    return c


def _run_case(case):
    res = new_result()
    log = Log(case.get('_seed'))
    wire0, regions, end_last, payload, max_line = gc.build(case)
    fault = case.get('fault')
    wire = gc.apply_fault(wire0, regions, fault)
    B = case['B']
    long_line = max_line > B
    # ---- expectation, decided from the structure only ----
    if fault is None:
        expect = 'exact-or-reject' if long_line else 'exact'
    elif fault['kind'] == 'truncate':
        expect = 'reject' if gc.fault_at(regions, fault) < end_last else 'exact-or-reject'
    elif fault['kind'] == 'crlf':
        expect = 'reject'
    else:
        expect = 'no5xx'
    stream = None
    outcome = None      # 'body' | 'reject' | 'server-error' | 'hang'
    body = None
    detail = ''
    api = direct_api() if case['via'] == 'direct' else None
    if api is not None:
        _body_read, BodyParsingError = api
        stream = SimStream(wire, case['sched'])
        with temp_seam(case['temp']):
            try:
                f = _body_read(stream.read, B, chunked=True)
                f.seek(0)
                body = f.read()
                outcome = 'body'
            except BodyParsingError:
                outcome = 'reject'
            except SimHang as e:
                outcome, detail = 'hang', str(e)
            except Exception as e:   # noqa
                outcome, detail = 'server-error', f'{type(e).__name__}: {e}'
    else:
        o = body_request(wire, case['sched'], B=B, M=case.get('M'), chunked=True, cl=case.get('cl_too'), ctype=case.get('ctype'),
                         tempmode=case['temp'], touch=('body',), retry=(3 if case.get('retry') else 0), errors_map=case.get('errors_map'),
                         foreign_app=bool(case.get('foreign_app')))
        stream = o.stream
        log('status', o.resp.status)
        if 'retry_body' in o.seen:
            violation(res, 'C05:body-on-retry',
                      f'the decoder rejected the body, but a second access of Request.body presented {len(o.seen["retry_body"])} '
                      f'bytes as a complete body (fault {case.get("fault")})', got=hx(o.seen['retry_body'][:64]))
        if 'retry_exc' in o.seen:
            res['fired']['body_touched_again_after_rejection'] += 1
            e2 = o.seen['retry_exc']
            if not hasattr(e2, 'status_code'):
                violation(res, 'C05:unmapped-error-on-retry',
                          f'the second access of a rejected body raised {type(e2).__name__} instead of the configured '
                          f'client-error response (errors_map: {case.get("errors_map") or "default"})')
        if o.hang is not None:
            outcome, detail = 'hang', str(o.hang)
        elif o.resp.escaped is not None:
            outcome, detail = 'server-error', f'escaped: {o.resp.escaped!r}'
        elif o.resp.code == 200 and 'body' in o.seen:
            outcome, body = 'body', o.seen['body']
            if o.seen.get('body2') != body:
                violation(res, 'C05:reaccess-differs', 'second access of Request.body returned different bytes')
        elif 400 <= o.resp.code < 500:
            outcome = 'reject'
        else:
            outcome, detail = 'server-error', f'status {o.resp.status!r}; handler exception {o.handler_exc!r}'
    for n, k, pos in stream.calls:
        log('read', n, k, pos)
    log('outcome', outcome, None if body is None else digest(body))

    fk = fault['kind'] if fault else 'none'
    if outcome == 'hang':
        violation(res, 'C05:hang', f'reader did not terminate ({detail})')
    elif outcome == 'server-error':
        violation(res, 'C05:server-error', f'fault={fk}: {detail}')
    elif expect == 'exact':
        if outcome == 'reject':
            violation(res, 'C05:legal-rejected',
                      f'legal chunked encoding ({len(case["chunks"])} chunks, {len(wire)} bytes, B={B}) rejected; '
                      f'short reads fired: {stream.n_short}')
        elif body != payload:
            violation(res, 'C05:body-mismatch', f'body has {len(body)} bytes, payload {len(payload)}',
                      got=hx(body[:64]), expected=hx(payload[:64]))
    elif expect == 'exact-or-reject':
        if outcome == 'body' and body != payload:
            violation(res, 'C05:body-mismatch', f'body has {len(body)} bytes, payload {len(payload)} (expect exact or reject)',
                      got=hx(body[:64]), expected=hx(payload[:64]))
    elif expect == 'reject':
        if outcome == 'body':
            cls = 'C05:truncation-accepted' if fk == 'truncate' else 'C05:crlf-break-accepted'
            violation(res, cls, f'fault {fault} accepted: a body of {len(body)} bytes was presented as complete')
    # expect == 'no5xx': anything but server-error/hang is fine

    f = res['fired']
    if fault is None:
        if stream.n_short and len(case['chunks']) >= 1:
            f['short_read'] += 1
    elif fk == 'truncate':
        if stream.hit_eof:
            f['truncate_eof_met'] += 1
            res['probes']['cut_in:' + fault['rel'][0]] += 1
    elif fk == 'crlf':
        pos = [s for s, e, kind, idx in regions if kind == 'data_crlf' and idx == fault['chunk']][0]
        if stream.consumed > pos:
            f['crlf_break_met:' + fault['variant']] += 1
    elif fk == 'flip':
        if stream.consumed > gc.fault_at(regions, fault):
            f['flip_met'] += 1
            res['probes']['flip_in:' + fault['rel'][0]] += 1
    if stream.n_short:
        res['probes']['runs_with_short_reads'] += 1
    if any(len(ch['data']) // 2 > B for ch in case['chunks']):
        res['probes']['chunk_larger_than_B'] += 1
        if stream.n_short:
            res['probes']['chunk_larger_than_B_with_short_reads'] += 1
    if any(ch.get('ext') for ch in case['chunks']):
        res['probes']['with_extensions'] += 1
    if any(ch.get('upper') for ch in case['chunks']):
        res['probes']['upper_hex'] += 1
    if case.get('trailers'):
        res['probes']['with_trailers'] += 1
    if long_line:
        res['probes']['size_line_longer_than_B'] += 1
    if case.get('ctype'):
        res['probes']['ctype:' + case['ctype'].split(';')[0]] += 1
    if case.get('M') is not None:
        res['probes']['body_limit_configured'] += 1
        if max_line > case['M'] + 1 and not long_line:
            res['probes']['size_line_longer_than_body_limit'] += 1
    res['probes']['outcome:' + str(outcome)] += 1
    res['probes']['expect:' + expect] += 1
    res['probes']['via:' + case['via']] += 1
    res['steps'] = stream.n_calls
    res['nontrivial'] = bool(f)
    res['digest'] = log.digest()
    if case['sched']['mode'] in ('rand', 'regular'):
        exp = dict(case)
        exp['sched'] = {'mode': 'script', 'sizes': stream.sizes_script()}
        res['explicit'] = exp
    return res


def _shrink_candidates(case):
    chunks = case['chunks']
    fault = case.get('fault')

    def reindex(cs_idx):
        """fault after keeping only the chunks with original indices cs_idx (None = impossible)."""
        if not fault:
            return fault
        if fault['kind'] == 'crlf':
            if fault['chunk'] not in cs_idx:
                return None
            return dict(fault, chunk=cs_idx.index(fault['chunk']))
        kind, idx, off = fault['rel']
        if idx < 0:
            return fault
        if idx not in cs_idx:
            return None
        return dict(fault, rel=[kind, cs_idx.index(idx), off])

    for keep in shrink.list_cands(list(range(len(chunks)))):
        nf = reindex(keep)
        if fault and nf is None:
            continue
        c = dict(case)
        c['chunks'] = [chunks[i] for i in keep]
        c['fault'] = nf
        yield c
    for i, ch in enumerate(chunks):
        data = unhx(ch['data'])
        if len(data) > 1:
            for d in (data[:1], data[:len(data) // 2], data[:-1], b'a' * len(data)):
                if d and d != data:
                    c = dict(case)
                    c['chunks'] = chunks[:i] + [dict(ch, data=hx(d))] + chunks[i + 1:]
                    yield c
        for k, v in (('ext', ''), ('zeros', 0), ('upper', False)):
            if ch.get(k):
                c = dict(case)
                c['chunks'] = chunks[:i] + [dict(ch, **{k: v})] + chunks[i + 1:]
                yield c
    if case.get('trailers'):
        yield shrink.with_key(case, 'trailers', [])
    if case.get('last', {}).get('ext') or case.get('last', {}).get('zeros'):
        yield shrink.with_key(case, 'last', {'zeros': 0, 'ext': ''})
    for sc in simpler_schedules(case['sched']):
        yield shrink.with_key(case, 'sched', sc)
    for b in (8, 4, 3):
        if b < case['B']:
            yield shrink.with_key(case, 'B', b)
    if fault and fault.get('rel') and fault['rel'][2] > 0:
        for v in shrink.int_cands(fault['rel'][2], 0):
            yield shrink.with_key(case, 'fault', dict(fault, rel=[fault['rel'][0], fault['rel'][1], v]))
    if case['temp'] != 'mem':
        yield shrink.with_key(case, 'temp', 'mem')
    for k in ('ctype', 'M', 'cl_too'):
        if case.get(k) is not None:
            c = dict(case)
            del c[k]
            yield c
    if case['via'] != 'direct':
        yield shrink.with_key(case, 'via', 'direct')


# ---- concurrent twin runs (sim.twin): a share of the seeded cases is served by 2-3 threads at once --------
from .. import twin as _twin   # noqa: E402

TWIN_SHARE = 0.06


def gen_case(rng, tier):
    return _twin.maybe_wrap(rng, _gen_case(rng, tier), TWIN_SHARE, gen_other=lambda r: _gen_case(r, tier))


def run_case(case):
    if 'twin' in case:
        return _twin.run(lambda inner, i: _run_case(inner), case)
    return _run_case(case)


def shrink_candidates(case):
    if 'twin' in case:
        yield from _twin.shrink_candidates(case, _shrink_candidates)
        return
    yield from _shrink_candidates(case)


def summarise(case):
    if 'twin' in case:
        return {'twin_of': _summarise(case["twin"]), 'threads': case.get('n', 2), 'plan': case['plan']}
    return _summarise(case)


def setup_worker():
    _twin.warm(_gen_case, _run_case)


TWIN_SWEEPS = {'quick': 10, 'thorough': 200}


def sweep_units(tier, root):
    units = _sweep_units(tier, root)
    # exhaustive single pre-emption over small cases: one unit = one case x every traced step of its solo run
    units += [{'twin_sweep': i, 'seed': (root * 2654435761 + i * 40503) & 0xffffffff} for i in range(TWIN_SWEEPS[tier])]
    return units


def expand_unit(u):
    if 'twin_sweep' not in u:
        yield from _expand_unit(u)
        return
    import random as _random
    rng = _random.Random(u['seed'])
    for _ in range(50):
        inner = _gen_case(rng, 'quick')
        if len(repr(inner)) < 1500:
            break
    yield from _twin.sweep(lambda c, i: _run_case(c), inner)
