"""C12 — malformed request bodies yield client errors, never server faults.

The fault-injecting twin of C07: hostile bytes (random, grammar-mutated
multipart, truncations at every offset, bad JSON, arbitrary urlencoded text)
under either framing (incl. broken chunked framing), any content type, any
buffer size and delivery schedule.  Oracle: status in {2xx, 4xx}, nothing
escapes, no hang; every delivered multipart field is the complete data of a
part terminated by a delimiter in the bytes as sent.
"""
import json
import random

from ..core import new_result, violation, Log, hx, unhx, digest
from ..stream import gen_schedule, simpler_schedules
from ..bodyreq import body_request
from .. import gen_multipart as gm
from .. import gen_chunked as gc
from .. import shrink
from .c07 import _site

PROP = 'C12'
LEVEL = 'exploration'
BATCH = 200
RUN_TIMEOUT = 5       # CPU-time watchdog ('never a hang'): an ordinary run takes milliseconds
TIERS = {
    'quick': {'runs': 700000, 'budget': 35},
    'thorough': {'runs': 5_000_000, 'budget': 540},
}
RULE = ('seeded runs: hostile body bytes (uniform random; multipart from the reference encoder with 1-3 grammar '
        'mutations: dropped/duplicated delimiter, header without colon / empty value / no name / non-UTF-8, missing '
        'header terminator, early close, garbage, byte flips, truncation; invalid, truncated, non-UTF-8 and non-object '
        'JSON; arbitrary urlencoded text) x content type (matching or not) x framing (Content-Length, short '
        'Content-Length stream, chunked, chunked with a framing fault) x B x delivery schedule x accessor order. '
        'sweep units: EVERY truncation offset of generated multipart bodies. Non-trivial = the mutated/hostile bytes '
        'were actually parsed by an accessor (not cut off by a framing error first) or a framing fault was met. '
        'distinct = distinct case digests among non-trivial runs.')
COMPONENTS = {
    'real': ['ombott (Ombott.__call__, BodyMixin.POST/json/forms/files/params, _body_read, MultipartMarkup, FieldStorage, errors_map)'],
    'simulated': ['wsgi.input (SimStream)', 'WSGI server', 'reference encoders + mutation operators'],
    'stubbed': ['temp file: in-memory stub'],
}
ASSUMPTIONS = [
    'CONTENT_LENGTH is a valid integer (header validation is the server\'s job and not part of "body bytes")',
    'a delivered field must start right after a CRLFCRLF and end exactly where CRLF--boundary starts in the bytes as sent',
]

TOUCH = ['forms', 'files', 'POST', 'json', 'params', 'body']
JSON_SAMPLES = [b'', b'{', b'}', b'[', b'[1,2', b'{"a":', b'{"a":1}', b'{"a":{"b":[1,2,{"c":null}]}}', b'[]', b'[1,2,3]',
                b'[["a","b"]]', b'[[1,2,3]]', b'"str"', b'12', b'-0.5e3', b'null', b'true', b'{"a":1}x', b'\xff\xfe{}',
                b'{"\xc3\x28":1}', b'{"a":"\\ud800"}', b'NaN', b'{"a":1,}', b"{'a':1}", b' ', b'\n', b'{"a":"' + b'x' * 50 + b'"}',
                b'{"":""}', b'{"a b":"c d","1":2}', b'[' * 200, b'{"a":' * 100, b'\xef\xbb\xbf{"a":1}', b'0' * 400, b'[' * 5000, b'{"a":' * 3000]
URLENC_SAMPLES = [b'', b'a=1', b'a=1&b=2', b'a', b'=', b'&', b'&&&', b'a=%', b'a=%zz', b'%=%', b'a=%ff%fe', b'a==b', b'a=b=c',
                  b'+=+', b'\xff\xfe=\x00', b'a=1&a=2&a=3', b'a' * 300, b'%00=%00', b'a=\r\n', b';a=1;b=2']


def mutate_mp(rng, body, boundary, layout):
    """one grammar-level mutation of a well-formed multipart body -> (bytes, name)"""
    d = gm.delim(boundary)
    b2 = b'--' + boundary.encode()
    ops = ['drop_delim', 'dup_delim', 'no_colon', 'empty_value', 'no_name', 'non_utf8_header', 'non_utf8_text',
           'no_terminator', 'garbage_after_close', 'close_early', 'bare_lf', 'flip', 'delete_range', 'insert_random',
           'truncate', 'cr_after_boundary', 'header_only', 'huge_header', 'dup_terminator', 'no_close', 'unclosed_quote', 'ctl_in_header']
    op = rng.choice(ops)
    n = len(body)
    occ = []
    i = body.find(b2)
    while i >= 0:
        occ.append(i)
        i = body.find(b2, i + 1)
    if op == 'drop_delim' and occ:
        i = rng.choice(occ)
        return body[:i] + body[i + len(b2):], op
    if op == 'dup_delim' and occ:
        i = rng.choice(occ)
        return body[:i] + b2 + b'\r\n' + body[i:], op
    if op == 'no_colon' and layout:
        hs, he, ds, de = rng.choice(layout)
        seg = body[hs:he]
        j = seg.find(b':')
        if j >= 0:
            return body[:hs + j] + rng.choice([b' ', b'', b';']) + body[hs + j + 1:], op
    if op == 'empty_value' and layout:
        hs, he, ds, de = rng.choice(layout)
        return body[:hs] + rng.choice([b'Content-Disposition:', b'X-Empty:\r\n' + body[hs:he], b':', b'X:\r\n' + body[hs:he]]) + body[he:], op
    if op == 'no_name' and layout:
        hs, he, ds, de = rng.choice(layout)
        return body[:hs] + rng.choice([b'Content-Disposition: form-data', b'Content-Type: text/plain',
                                       b'Content-Disposition: form-data; filename="x"', b'X-Other: 1']) + body[he:], op
    if op == 'non_utf8_header' and layout:
        hs, he, ds, de = rng.choice(layout)
        j = rng.randrange(hs, he + 1)
        return body[:j] + rng.choice([b'\xff', b'\xc3\x28', b'\xed\xa0\x80', b'\x80']) + body[j:], op
    if op == 'non_utf8_text' and layout:
        hs, he, ds, de = rng.choice(layout)
        return body[:ds] + rng.choice([b'\xff', b'\xc3\x28', b'\xe2\x82']) + body[ds:], op
    if op == 'no_terminator' and layout:
        hs, he, ds, de = rng.choice(layout)
        return body[:he] + rng.choice([b'\r\n', b'', b'\n\n', b'\r\r']) + body[ds:], op
    if op == 'garbage_after_close':
        return body + bytes(rng.getrandbits(8) for _ in range(rng.randint(1, 40))), op
    if op == 'close_early' and occ:
        i = rng.choice(occ)
        return body[:i + len(b2)] + b'--' + body[i + len(b2):], op
    if op == 'bare_lf':
        j = body.find(b'\r\n', rng.randrange(0, max(1, n)))
        if j >= 0:
            return body[:j] + b'\n' + body[j + 2:], op
    if op == 'flip' and n:
        j = rng.randrange(n)
        return body[:j] + bytes([rng.getrandbits(8)]) + body[j + 1:], op
    if op == 'delete_range' and n > 1:
        j = rng.randrange(n)
        k = rng.randint(1, min(20, n - j))
        return body[:j] + body[j + k:], op
    if op == 'insert_random':
        j = rng.randrange(n + 1)
        ins = rng.choice([b'\r', b'\n', b'\r\n', b'--', d, b2, b'\r\n\r\n', b':', b'"', b';',
                          bytes(rng.getrandbits(8) for _ in range(rng.randint(1, 8)))])
        return body[:j] + ins + body[j:], op
    if op == 'truncate' and n:
        return body[:rng.randrange(n)], op
    if op == 'cr_after_boundary' and occ:
        i = rng.choice(occ)
        return body[:i + len(b2)] + rng.choice([b'\r', b'\rX', b'\n', b'-', b'-X', b' ']) + body[i + len(b2):], op
    if op == 'header_only' and layout:
        hs, he, ds, de = rng.choice(layout)
        return body[:he], op
    if op == 'huge_header' and layout:
        hs, he, ds, de = rng.choice(layout)
        return body[:he] + b'\r\nX-Pad: ' + b'p' * rng.choice([100, 1000, 5000]) + body[he:], op
    if op == 'dup_terminator' and layout:
        hs, he, ds, de = rng.choice(layout)
        return body[:ds] + b'\r\n\r\n' + body[ds:], op
    if op == 'ctl_in_header' and layout:
        # a control byte (NUL, VT, DEL, lone CR...) inside a header line of a part, in the main value or in a parameter
        hs, he, ds, de = rng.choice(layout)
        if he > hs:
            j = rng.randrange(hs, he + 1)
            return body[:j] + rng.choice([b'\x00', b'\x0b', b'\x7f', b'\x01', b'\r', b'\x00\x00']) + body[j:], op
    if op == 'unclosed_quote' and layout:
        # a long quoted parameter value whose closing quote never comes (backslashes and quotes inside)
        hs, he, ds, de = rng.choice(layout)
        filler = rng.choice([b'a', b'a\\', b'\\"', b'ab '])
        val = (filler * 80)[:rng.choice([20, 33, 48, 64])]
        return body[:hs] + b'Content-Disposition: form-data; name="n"; filename="' + val + body[he:], op
    if op == 'no_close':
        j = body.rfind(b2 + b'--')
        if j >= 0:
            return body[:j], op
    return body, 'none'


def _gen_case(rng, tier):
    kind = rng.choice(['random', 'mp_mut', 'mp_mut', 'mp_mut', 'mp_trunc', 'json', 'json', 'urlenc', 'mp_valid'])
    case = {'kind': kind, 'muts': []}
    boundary = None
    if kind == 'random':
        n = rng.choice([0, 1, 2, 10, 100, rng.randint(0, 600 if tier == 'quick' else 2048)])
        body = bytes(rng.getrandbits(8) for _ in range(n))
        if rng.random() < 0.5:
            boundary = gm.gen_boundary(rng, token_only=True)
            if rng.random() < 0.5:
                body = b'--' + boundary.encode() + rng.choice([b'\r\n', b'', b'--', b'\r']) + body
    elif kind in ('mp_mut', 'mp_trunc', 'mp_valid'):
        fields = gm.gen_fields(rng, max_fields=5, max_file=200, text_ctypes=gm.TEXT_CTYPES_HOSTILE)
        if any('value' in f and f.get('ctype') not in (None,) + tuple(gm.TEXT_CTYPES_NEUTRAL) for f in fields):
            # a text part labelled with a charset that is unknown, not a text encoding, or not UTF-8: what its text is
            # (if it is accepted at all) is not for this oracle to say; status and the upload parts are still judged
            case['odd_charset'] = True
        texts = [f['value'].encode('utf8') for f in fields if 'value' in f]
        boundary = gm.choose_boundary(rng, texts, token_only=True)
        if rng.random() < 0.06:
            # longer than the 70 characters RFC 2046 allows: hostile or sloppy clients send such boundaries
            boundary = (boundary + 'Long' * 40)[:rng.choice([71, 80, 100, 150])]
            if any(boundary.encode() in t for t in texts):
                boundary = 'x' + boundary[1:]
        for f in fields:
            if 'filename' in f:
                f.pop('_max', None)
                f['data'] = gm.gen_data(rng, boundary, rng.choice([0, 1, 5, 30, 200])).hex()
        body, layout = gm.encode_fields(fields, boundary, tail=rng.choice([b'\r\n', b'']))
        case['orig_fields'] = fields
        if kind == 'mp_trunc':
            if len(body) > 0:
                k = rng.randrange(len(body))
                body = body[:k]
                case['muts'] = ['truncate']
        elif kind == 'mp_mut':
            for _ in range(rng.choice([1, 1, 2, 3])):
                body2, op = mutate_mp(rng, body, boundary, layout)
                case['muts'].append(op)
                if body2 != body:
                    layout = []      # offsets no longer valid after the first mutation
                body = body2
            case.pop('orig_fields')
    elif kind == 'json':
        body = rng.choice(JSON_SAMPLES)
        if rng.random() < 0.4:
            try:
                obj = rng.choice([{'a': 1, 'b': [1, 2]}, [1, 2], {'k': 'v' * rng.randint(0, 100)}, {'a': {'b': None}}])
                body = json.dumps(obj).encode()
                if rng.random() < 0.6 and body:
                    j = rng.randrange(len(body))
                    body = rng.choice([body[:j], body[:j] + bytes([rng.getrandbits(8)]) + body[j + 1:], body[:j] + body[j + 1:]])
            except Exception:
                pass
    else:
        body = rng.choice(URLENC_SAMPLES)
        if rng.random() < 0.5:
            body = bytes(rng.choice(b'ab=&%+;0123456789\xff\x00 \r\n') for _ in range(rng.randint(0, 200)))
    # ---- content type ----
    r = rng.random()
    if kind.startswith('mp') or (kind == 'random' and boundary and r < 0.8):
        ct = 'multipart/form-data; boundary=' + boundary if r < 0.9 else rng.choice(
            ['multipart/form-data', 'multipart/form-data; boundary=', 'multipart/mixed; boundary=' + boundary,
             'application/json', 'application/x-www-form-urlencoded'])
    elif kind == 'json':
        ct = rng.choice(['application/json', 'application/json', 'application/json; charset=utf-8', 'application/jsonx',
                         'application/x-www-form-urlencoded', None])
    elif kind == 'urlenc':
        ct = rng.choice(['application/x-www-form-urlencoded', 'application/x-www-form-urlencoded; charset=utf-8', None,
                         'text/plain', 'application/json'])
    else:
        ct = rng.choice([None, 'application/octet-stream', 'application/json', 'application/x-www-form-urlencoded',
                         'multipart/form-data; boundary=zz', 'multipart/form-data'])
    if ct and rng.random() < 0.12:
        # hostile / sloppy media-type parameters (unknown charset labels, odd quoting, several parameters)
        ct = ct + rng.choice(['; charset=utf8mb4', '; charset=x-user-defined', '; charset=base64', '; charset=',
                              '; charset="utf-8"', '; charset=latin-1', '; CHARSET=UTF-8', '; charset=utf-16',
                              '; foo=bar; charset=nope', ';', '; ;', '; charset', '; boundary=other'])
    case['ctype'] = ct
    case['boundary'] = boundary
    case['body'] = hx(body)
    # ---- framing ----
    r = rng.random()
    if r < 0.5:
        case['framing'] = {'kind': 'cl'}
    elif r < 0.6:
        case['framing'] = {'kind': 'cl_over', 'extra': rng.choice([1, 2, 10, 1000])}
    elif r < 0.85:
        case['framing'] = {'kind': 'chunked', 'seed': rng.getrandbits(32), 'fault': False}
    else:
        case['framing'] = {'kind': 'chunked', 'seed': rng.getrandbits(32), 'fault': True}
    case['B'] = rng.choice([1, 2, 3, 8, 16, 64, 256, 1024, 102400, max(1, len(body) - 1), len(body) + 1])
    wire = _wire(case)
    case['sched'] = gen_schedule(rng, len(wire), case['B'])
    t = list(TOUCH)
    rng.shuffle(t)
    case['touch'] = t[:rng.choice([1, 1, 2, 3, 6])]
    if 'files' in case['touch'] and rng.random() < 0.25:
        case['touch'] = [('files_rr:%d' % rng.choice([1, 4, 16])) if x == 'files' else x for x in case['touch']]
    if case['framing']['kind'] == 'cl' and rng.random() < 0.25:
        # the client keeps the connection open after its complete message (a read beyond it would block for ever);
        # a configured body limit below the body size and an application that touches the body again after the 413
        case['keep_alive'] = True
        if rng.random() < 0.6:
            case['M'] = rng.choice([0, 1, max(1, len(body) // 2), max(1, len(body) - 1), len(body) // 2 + 1])
            case['retry'] = rng.choice([1, 2, 3])
    if rng.random() < 0.08:
        case['errors_map'] = 'base_only'
        case['retry'] = max(case.get('retry', 0), 2)
    r = rng.random()
    if r < 0.08:
        case['stages'] = {'after': [rng.choice(['forms_quiet', 'json', 'body'])]}      # e.g. an audit hook reading the body
    elif r < 0.14:
        case['stages'] = {'before': [rng.choice(['forms_quiet', 'json'])]}
    elif r < 0.2:
        case['stages'] = {'lazy': True}
    if rng.random() < 0.08:
        # another application of the same process answers request errors in its own (non-4xx) way
        case['foreign_app'] = True
    return case


def _wire(case):
    body = unhx(case['body'])
    fr = case['framing']
    if fr['kind'] in ('cl', 'cl_over'):
        return body
    rng = random.Random(fr['seed'])
    chunks = []
    pos = 0
    while pos < len(body):
        s = min(len(body) - pos, rng.choice([1, 3, 16, 100, 1000, len(body)]))
        chunks.append({'data': body[pos:pos + s].hex(), 'upper': rng.random() < 0.3, 'zeros': 0,
                       'ext': gc.gen_ext(rng) if rng.random() < 0.2 else ''})
        pos += s
    st = {'chunks': chunks, 'last': {}, 'trailers': [], 'final_crlf': True}
    wire, regions, end_last, payload, max_line = gc.build(st)
    if fr.get('fault') and wire:
        r = rng.random()
        j = rng.randrange(len(wire))
        if r < 0.5:
            wire = wire[:j]
        elif r < 0.8:
            wire = wire[:j] + bytes([rng.getrandbits(8)]) + wire[j + 1:]
        else:
            wire = wire[:j] + wire[j + 1:]
    return wire


def _sweep_units(tier, root):
    n = 30 if tier == 'quick' else 500
    return [{'seed': (root * 31337 + i * 92821) & 0xffffffff, 'i': i} for i in range(n)]


def _expand_unit(u):
    """every truncation offset of a generated well-formed multipart body"""
    rng = random.Random(u['seed'])
    fields = gm.gen_fields(rng, max_fields=4, max_file=60)
    texts = [f['value'].encode('utf8') for f in fields if 'value' in f]
    boundary = gm.choose_boundary(rng, texts, token_only=True)
    for f in fields:
        if 'filename' in f:
            f.pop('_max', None)
            f['data'] = gm.gen_data(rng, boundary, rng.choice([0, 1, 5, 30, 60])).hex()
    body, layout = gm.encode_fields(fields, boundary, tail=b'\r\n')
    if len(body) > 700:
        return
    B = rng.choice([16, 64, 1024, 102400])
    for k in range(0, len(body) + 1):
        for touch in (['forms', 'files'], ['POST']):
            yield {'kind': 'mp_trunc', 'muts': ['truncate'], 'orig_fields': fields, 'ctype': 'multipart/form-data; boundary=' + boundary,
                   'boundary': boundary, 'body': hx(body[:k]), 'framing': {'kind': 'cl'}, 'B': B,
                   'sched': {'mode': 'full'} if k % 2 else {'mode': 'regular', 'k': 7}, 'touch': touch}


def _summarise(case):
    c = dict(case)
    b = unhx(case['body'])
    c['body'] = b[:200].decode('latin1') + ('...' if len(b) > 200 else '')
    c.pop('orig_fields', None)
    return c


def _complete_part(body, d, data):
    """is `data` the complete data of a part terminated by a delimiter in `body`?"""
    if d in data:
        return False
    start = 0
    term = b'\r\n\r\n'
    n = len(data)
    while True:
        i = body.find(term, start)
        if i < 0:
            return False
        s = i + 4
        if body[s:s + n] == data and body[s + n:s + n + len(d)] == d:
            return True
        start = i + 1


def _run_case(case):
    res = new_result()
    log = Log(case.get('_seed'))
    body = unhx(case['body'])
    wire = _wire(case)
    fr = case['framing']
    chunked = fr['kind'] == 'chunked'
    cl = None
    if fr['kind'] == 'cl':
        cl = len(body)
    elif fr['kind'] == 'cl_over':
        cl = len(body) + fr['extra']
    o = body_request(wire, case['sched'], B=case['B'], cl=cl, chunked=chunked, ctype=case['ctype'],
                     tempmode='mem', touch=tuple(case['touch']), stages=case.get('stages'),
                     M=case.get('M'), retry=case.get('retry', 0), keep_alive=bool(case.get('keep_alive')),
                     errors_map=case.get('errors_map'), foreign_app=bool(case.get('foreign_app')))
    code = o.resp.code
    e2 = o.seen.pop('retry_exc', None)
    o.seen.pop('retry_copy_exc', None)
    if e2 is not None and not hasattr(e2, 'status_code') and type(e2).__name__ != 'SimHang':
        violation(res, f'C12:5xx:{type(e2).__name__}@retry',
                  f'touching the body again after it was refused raised {type(e2).__name__} (not the configured client error): '
                  f'an unhandled server fault for any application that does so')
    log('status', o.resp.status, 'calls', o.stream.n_calls, 'seen', digest(o.seen))
    exc = o.handler_exc
    if o.hang is not None:
        violation(res, 'C12:hang', f'{o.hang}')
    elif o.resp.escaped is not None:
        violation(res, f'C12:escape:{type(o.resp.escaped).__name__}', f'exception escaped the framework: {o.resp.escaped!r}')
    elif code is None or not (200 <= code < 300 or 400 <= code < 500):
        site = f'{type(exc).__name__}@{_site(exc)}' if exc is not None else 'no-handler-exception'
        violation(res, f'C12:5xx:{site}',
                  f'body kind={case["kind"]} muts={case["muts"]} ctype={case["ctype"]!r} touch={case["touch"]} answered '
                  f'{o.resp.status!r}: {type(exc).__name__ if exc else None}: {str(exc)[:200]}')
    elif 'Traceback' in (o.resp.errors_text or ''):
        violation(res, 'C12:traceback-on-wsgi-errors', 'wsgi.errors carries a traceback although the status is not 5xx')
    parsed = False
    # field-content oracle: only when the bytes the framework decoded are known to the oracle, i.e. the
    # framing itself was not corrupted (a corrupted-but-accepted chunked framing changes the payload)
    framing_intact = not (chunked and fr.get('fault'))
    if framing_intact and code is not None and 200 <= code < 300 and case.get('boundary') \
            and (case['ctype'] or '').startswith('multipart/') \
            and ('boundary=' + case['boundary']) in (case['ctype'] or ''):
        d = gm.delim(case['boundary'])
        delivered = []
        for what in ('forms', 'files', 'POST'):
            for k, v in o.seen.get(what, []):
                for x in (v if isinstance(v, list) else [v]):
                    delivered.append((what, k, x))
        for what, k, x in delivered:
            parsed = True
            if isinstance(x, dict):
                data = x.get('data')
            elif isinstance(x, str):
                if case.get('odd_charset'):
                    continue
                data = x.encode('utf8')
            else:
                violation(res, 'C12:field-bad-type', f'{what}[{k!r}] delivered as {x!r}')
                continue
            # the bytes as sent: for cl_over/cl the body itself; for faulty chunked framing the request was rejected
            if not _complete_part(body, d, data):
                violation(res, 'C12:partial-field-delivered',
                          f'{what}[{k!r}] = {data[:40]!r}... ({len(data)} bytes) is not the complete data of a delimiter-terminated part')
                break
        if case.get('orig_fields') is not None and case['muts'] in ([], ['truncate']) and not res['viol'] \
                and not case.get('odd_charset'):
            # truncation of a well-formed body: delivered list must be a prefix of the submitted list, full values
            exp = []
            for f in case['orig_fields']:
                exp.append((f['name'], f['value'] if 'value' in f else unhx(f['data'])))
            if 'POST' in o.seen:
                got = []
                for k, v in o.seen['POST']:
                    for x in (v if isinstance(v, list) else [v]):
                        got.append((k, x['data'] if isinstance(x, dict) else x))
                # POST groups by name: compare as multisets per name against a prefix of exp
                ok = False
                for n in range(len(exp) + 1):
                    if _group(exp[:n]) == _group(got):
                        ok = True
                        break
                if not ok:
                    violation(res, 'C12:truncation-not-a-prefix',
                              f'truncated body delivered {got[:4]!r}, which is not a prefix of the submitted fields')
    f = res['fired']
    if exc is not None or parsed or any(t in o.seen for t in ('forms', 'files', 'POST', 'json', 'params')):
        f['hostile_bytes_reached_accessor:' + case['kind']] += 1
    if chunked and fr.get('fault') and o.stream.consumed > 0:
        f['chunked_framing_fault'] += 1
    if fr['kind'] == 'cl_over' and o.stream.hit_eof:
        f['early_eof_under_content_length'] += 1
    for m in case['muts']:
        res['probes']['mut:' + m] += 1
    res['probes']['status:%s' % code] += 1
    res['probes']['kind:' + case['kind']] += 1
    if exc is not None:
        res['probes']['handler_exc:' + type(exc).__name__] += 1
    res['steps'] = o.stream.n_calls
    res['nontrivial'] = bool(f)
    res['digest'] = log.digest()
    if case['sched']['mode'] in ('rand', 'regular'):
        e = dict(case)
        e['sched'] = {'mode': 'script', 'sizes': o.stream.sizes_script()}
        res['explicit'] = e
    return res


def _group(pairs):
    g = {}
    for k, v in pairs:
        g.setdefault(k, []).append(v if isinstance(v, (bytes, str)) else v)
    # text values compare as str, file data as bytes
    return {k: [x if isinstance(x, bytes) else x for x in vs] for k, vs in g.items()}


def _shrink_candidates(case):
    for sc in simpler_schedules(case['sched']):
        yield dict(case, sched=sc)
    if case['framing']['kind'] != 'cl':
        yield dict(case, framing={'kind': 'cl'})
    if case.get('stages'):
        c = dict(case)
        c.pop('stages')
        yield c
    if len(case['touch']) > 1:
        for t in case['touch']:
            yield dict(case, touch=[t])
    body = unhx(case['body'])
    if case.get('orig_fields') is not None:
        # keep the "prefix of a well-formed body" reading: only shorter prefixes
        for n in shrink.int_cands(len(body), 0):
            yield dict(case, body=hx(body[:n]))
    base = {k: v for k, v in case.items() if k != 'orig_fields'}
    for nb in shrink.bytes_cands(body):
        yield dict(base, body=hx(nb))
    # line-level deletions
    lines = body.split(b'\r\n')
    if len(lines) > 2:
        for ls in shrink.list_cands(lines):
            yield dict(base, body=hx(b'\r\n'.join(ls)))
    for B in (102400, 64):
        if B != case['B']:
            yield dict(case, B=B)
    if case.get('boundary') and case['boundary'] != 'b' and case['ctype'] and case['boundary'] in case['ctype']:
        nb = body.replace(case['boundary'].encode(), b'b')
        yield dict(base, body=hx(nb), boundary='b', ctype=case['ctype'].replace(case['boundary'], 'b'))


# ---- concurrent twin runs (sim.twin): a share of the seeded cases is served by 2-3 threads at once --------
from .. import twin as _twin   # noqa: E402

TWIN_SHARE = 0.05


def gen_case(rng, tier):
    return _twin.maybe_wrap(rng, _gen_case(rng, tier), TWIN_SHARE, gen_other=lambda r: _gen_case(r, tier),
                            ok=lambda c: not ({'before', 'after'} & set(c.get('stages') or {})))


def run_case(case):
    if 'twin' in case:
        return _twin.run(lambda inner, i: _run_case(inner), case)
    return _run_case(case)


def shrink_candidates(case):
    if 'twin' in case:
        yield from _twin.shrink_candidates(case, _shrink_candidates)
        return
    yield from _shrink_candidates(case)


def summarise(case):
    if 'twin' in case:
        return {'twin_of': _summarise(case["twin"]), 'threads': case.get('n', 2), 'plan': case['plan']}
    return _summarise(case)


def setup_worker():
    _twin.warm(_gen_case, _run_case)


TWIN_SWEEPS = {'quick': 10, 'thorough': 200}


def sweep_units(tier, root):
    units = _sweep_units(tier, root)
    # exhaustive single pre-emption over small cases: one unit = one case x every traced step of its solo run
    units += [{'twin_sweep': i, 'seed': (root * 2654435761 + i * 40503) & 0xffffffff} for i in range(TWIN_SWEEPS[tier])]
    return units


def expand_unit(u):
    if 'twin_sweep' not in u:
        yield from _expand_unit(u)
        return
    import random as _random
    rng = _random.Random(u['seed'])
    for _ in range(50):
        inner = _gen_case(rng, 'quick')
        if len(repr(inner)) < 1500:
            break
    yield from _twin.sweep(lambda c, i: _run_case(c), inner)
