"""C07 — multipart forms and uploads round-trip exactly (fault-free configuration
of the E-stream engine; its fault-injecting twin is C12).

Field list -> reference encoder -> Content-Length or chunked framing ->
SimStream with arbitrary (non-faulty) fragmentation -> Ombott.__call__ ->
forms / files / POST compared with the submitted list.
"""
import random

from ..core import new_result, violation, Log, hx, unhx, digest
from ..stream import gen_schedule, simpler_schedules
from ..bodyreq import body_request
from .. import gen_multipart as gm
from .. import gen_chunked as gc
from .. import shrink

PROP = 'C07'
LEVEL = 'exploration'
BATCH = 200
TIERS = {
    'quick': {'runs': 500000, 'budget': 30},
    'thorough': {'runs': 4_000_000, 'budget': 480},
}
RULE = ('seeded runs: field list (0-8 text/file parts, repeated and mixed names, names/filenames over an alphabet '
        'with ; = space backslash and non-ASCII, adversarial file bytes) -> reference multipart encoder with a boundary '
        'legal for the data (bare token or quoted) -> Content-Length or chunked framing -> seeded delivery schedule -> '
        'threshold B between the in-memory text budget and far above the body. Non-trivial = at least one field and '
        '(a short read with more data following, or the body spilled past B, or chunked framing). distinct = distinct '
        'case digests among non-trivial runs.')
COMPONENTS = {
    'real': ['ombott (Ombott.__call__, _body_read, MultipartMarkup, FieldStorage, BytesIOProxy, BodyMixin.POST, FileUpload)',
             'tempfile.TemporaryFile (subset)'],
    'simulated': ['wsgi.input (SimStream)', 'WSGI server', 'reference multipart and chunked encoders'],
    'stubbed': ['temp file replaced by in-memory MemTemp in a subset of runs'],
}
ASSUMPTIONS = [
    'names / filenames contain no double quote, CR, LF (nor other Unicode line separators); filenames are non-empty',
    'the sum of part headers and text values stays within max_memfile_size (larger text is C13)',
    'an upload content type may be exposed as str or as an object with .value; only the media type is compared',
]


def _needed_budget(fields):
    n = 0
    for f in fields:
        n += len(gm.field_headers(f))
        if 'value' in f:
            n += len(f['value'].encode('utf8'))
    return n


def _gen_case(rng, tier):
    fields = gm.gen_fields(rng, max_fields=8, max_file=(400 if tier == 'quick' else 8192), text_ctypes=gm.TEXT_CTYPES_NEUTRAL)
    blobs = []
    for f in fields:
        if 'filename' in f:
            mx = f.pop('_max')
            f['data'] = None
            blobs.append(None)
    # boundary first (data generation avoids it), then data
    texts = [f['value'].encode('utf8') for f in fields if 'value' in f]
    boundary = gm.choose_boundary(rng, texts, token_only=(rng.random() < 0.5))
    for f in fields:
        if 'filename' in f:
            f['data'] = gm.gen_data(rng, boundary, rng.choice([0, 1, 5, 30, 400 if tier == 'quick' else 8192])).hex()
    case = {'fields': fields, 'boundary': boundary,
            'tail': rng.choice(['0d0a', '0d0a', '', '0d0a0d0a']),
            'quoted': (not gm.is_token(boundary)) or rng.random() < 0.15}
    body, _ = gm.encode_fields(fields, boundary, tail=unhx(case['tail']))
    need = _needed_budget(fields)
    case['B'] = max(8, rng.choice([need, need + 1, need * 2 + 3, max(need, len(body) - 1), len(body) + 10, 102400]))
    if rng.random() < 0.4:
        case['framing'] = 'chunked'
        # partition of the body into chunks
        sizes = []
        left = len(body)
        while left > 0:
            s = min(left, rng.choice([1, 2, 7, 16, 100, 1000, left]))
            sizes.append(s)
            left -= s
        case['chunk_sizes'] = sizes
        case['chunk_style'] = [rng.random() < 0.3, rng.choice([0, 0, 2])]
    else:
        case['framing'] = 'cl'
    wire = _wire(case, body)
    case['sched'] = gen_schedule(rng, len(wire), case['B'])
    case['temp'] = 'mem' if rng.random() < 0.5 else 'real'
    order = ['forms', 'files', 'POST']
    rng.shuffle(order)
    case['touch'] = order[:rng.choice([1, 2, 3, 3])]
    if rng.random() < 0.2:
        case['touch'] = case['touch'] + ['files_seek']
    # where and when the application looks at the form: a before-request hook that looked first, a handler
    # that does its work lazily (while the server iterates), a second body bound to the same request object
    prog = {}
    if rng.random() < 0.15:
        prog['before'] = ['forms_quiet']
    if rng.random() < 0.15:
        prog['lazy'] = True
    if rng.random() < 0.1:
        prog['rebind'] = True
    if prog:
        case['prog'] = prog
    if 'files' in case['touch'] and rng.random() < 0.35:
        # read the uploads piecewise in round-robin order instead of one after the other
        case['touch'] = [('files_rr:%d' % rng.choice([1, 3, 16, 64])) if t == 'files' else t for t in case['touch']]
    return case


def _wire(case, body):
    if case['framing'] == 'cl':
        return body
    chunks = []
    pos = 0
    up, zeros = case.get('chunk_style', [False, 0])
    for s in case['chunk_sizes']:
        d = body[pos:pos + s]
        pos += s
        if d:
            chunks.append({'data': d.hex(), 'upper': up, 'zeros': zeros, 'ext': ''})
    if pos < len(body):
        chunks.append({'data': body[pos:].hex(), 'upper': up, 'zeros': zeros, 'ext': ''})
    wire, *_ = gc.build({'chunks': chunks, 'last': {}, 'trailers': [], 'final_crlf': True})
    return wire


def _flip(ch):
    if 'a' <= ch <= 'z' or 'A' <= ch <= 'Z':
        return ch.swapcase()
    if '0' <= ch <= '8':
        return chr(ord(ch) + 1)
    return ch


def second_fields(fields):
    """Same structure and byte lengths, different text values (letters change case, digits move on)."""
    out = []
    for f in fields:
        g = dict(f)
        if 'value' in g:
            g['value'] = ''.join(_flip(c) for c in g['value'])
        out.append(g)
    return out


def expected(fields):
    forms, files, post = {}, {}, {}
    for f in fields:
        if 'value' in f:
            forms.setdefault(f['name'], []).append(f['value'])
            post.setdefault(f['name'], []).append(f['value'])
        else:
            up = {'name': f['name'], 'filename': f['filename'], 'ctype': f.get('ctype'), 'data': unhx(f['data'])}
            files.setdefault(f['name'], []).append(up)
            post.setdefault(f['name'], []).append(up)
    return forms, files, post


def _norm_seen(lst):
    """[[key, value-or-list]] -> {key: [values]}"""
    out = {}
    for k, v in lst:
        out[k] = list(v) if isinstance(v, list) else [v]
    return out


def _media(ct):
    return (ct or '').split(';')[0].strip().lower()


def _eq_upload(got, exp):
    if not isinstance(got, dict):
        return False
    if got.get('name') != exp['name'] or got.get('filename') != exp['filename'] or got.get('data') != exp['data']:
        return False
    if exp['ctype'] is not None and _media(got.get('ctype')) != _media(exp['ctype']):
        return False
    return True


def _eq_values(got, exp):
    if len(got) != len(exp):
        return False
    for g, e in zip(got, exp):
        if isinstance(e, dict):
            if not _eq_upload(g, e):
                return False
        elif g != e:
            return False
    return True


def _cmp(seen, exp, what):
    """-> None or description"""
    if set(seen) != set(exp):
        miss = [k for k in exp if k not in seen]
        extra = [k for k in seen if k not in exp]
        return f'{what}: keys differ, missing {miss[:3]!r} unexpected {extra[:3]!r}'
    for k in exp:
        if not _eq_values(seen[k], exp[k]):
            return f'{what}[{k!r}]: got {_brief(seen[k])}, submitted {_brief(exp[k])}'
    return None


def _brief(vs):
    out = []
    for v in vs[:3]:
        if isinstance(v, dict):
            out.append({'filename': v.get('filename'), 'ctype': v.get('ctype'), 'len': len(v.get('data') or b''),
                        'data': (v.get('data') or b'')[:20]})
        else:
            out.append(v[:40] if isinstance(v, str) else v)
    return out


def _summarise(case):
    c = dict(case)
    c['fields'] = [dict(f, data=(f['data'][:40] + '...' if len(f.get('data') or '') > 40 else f.get('data'))) if 'filename' in f else f
                   for f in case['fields']][:6]
    c.pop('chunk_sizes', None)
    return c


def _site(exc):
    """innermost frame inside ombott of an exception's traceback"""
    tb = exc.__traceback__
    site = '?'
    while tb is not None:
        fn = tb.tb_frame.f_code.co_filename
        if '/ombott/' in fn:
            site = tb.tb_frame.f_code.co_name
        tb = tb.tb_next
    return site


def _run_case(case):
    res = new_result()
    log = Log(case.get('_seed'))
    fields = case['fields']
    body, layout = gm.encode_fields(fields, case['boundary'], tail=unhx(case['tail']))
    wire = _wire(case, body)
    chunked = case['framing'] == 'chunked'
    prog = case.get('prog') or {}
    touch = list(case['touch'])
    fields2 = None
    if prog.get('rebind'):
        fields2 = second_fields(fields)
        body2, _ = gm.encode_fields(fields2, case['boundary'], tail=unhx(case['tail']))
        d = gm.delim(case['boundary'])
        if len(body2) == len(body) and body2.count(d) == body.count(d) and fields2 != fields:
            touch.append('rebind:' + hx(_wire(case, body2)))
        else:
            fields2 = None
    o = body_request(wire, case['sched'], B=case['B'], cl=(None if chunked else len(body)), chunked=chunked,
                     ctype=gm.content_type_header(case['boundary'], case['quoted']), tempmode=case['temp'],
                     touch=tuple(touch), stages={k: prog[k] for k in ('before', 'lazy') if k in prog})
    log('status', o.resp.status, 'calls', o.stream.n_calls)
    forms_e, files_e, post_e = expected(fields)
    if o.hang is not None:
        violation(res, 'C07:hang', str(o.hang))
    elif o.resp.escaped is not None or o.resp.code != 200:
        exc = o.handler_exc
        cls = f'C07:error:{type(exc).__name__}@{_site(exc)}' if exc is not None else f'C07:status-{o.resp.code}'
        violation(res, cls, f'well-formed form post answered {o.resp.status!r}: {type(exc).__name__ if exc else None}: {exc}')
    else:
        seen = o.seen
        if seen.get('seek_problem'):
            violation(res, 'C07:upload-seek-inconsistent', seen['seek_problem'])
        if fields2 is not None and 'forms_rebound' in seen:
            f2, u2, _p2 = expected(fields2)
            res['fired']['second_body_bound_to_request'] += 1
            for what, got, exp in (('forms', seen['forms_rebound'], f2), ('files', seen['files_rebound'], u2)):
                d = _cmp(_norm_seen(got), exp, what)
                if d:
                    violation(res, f'C07:{what}-stale-after-rebind',
                              f'after a second body was bound to the request (request["wsgi.input"] = ...), {d}')
                    break
        for what, exp in (('forms', forms_e), ('files', files_e), ('POST', post_e)):
            if what in seen:
                d = _cmp(_norm_seen(seen[what]), exp, what)
                log(what, digest(seen[what]))
                if d:
                    violation(res, f'C07:{what.lower()}-mismatch', d)
                # single values must not be wrapped in a list, repeated ones must be
                for k, v in seen[what]:
                    if k in exp and (isinstance(v, list) != (len(exp[k]) > 1)) and not d:
                        violation(res, f'C07:{what.lower()}-list-promotion',
                                  f'{what}[{k!r}] is {"a list" if isinstance(v, list) else "a scalar"} for {len(exp[k])} submitted values')
                        break
    f = res['fired']
    if fields:
        if o.stream.n_short:
            f['short_read'] += 1
        if o.seam_created:
            f['body_spilled'] += 1
        if chunked:
            f['chunked_framing'] += 1
    p = res['probes']
    names = [x['name'] for x in fields] + [x['filename'] for x in fields if 'filename' in x]
    if any(';' in n for n in names):
        p['name_with_semicolon'] += 1
    if any('=' in n for n in names):
        p['name_with_equals'] += 1
    if any('\\' in n for n in names):
        p['name_with_backslash'] += 1
    if any(ord(c) > 127 for n in names for c in n):
        p['name_non_ascii'] += 1
    if len(set(x['name'] for x in fields)) < len(fields):
        p['repeated_names'] += 1
    kinds = {}
    for x in fields:
        kinds.setdefault(x['name'], set()).add('filename' in x)
    if any(len(v) > 1 for v in kinds.values()):
        p['name_used_for_text_and_file'] += 1
    if case['quoted']:
        p['quoted_boundary'] += 1
    if not gm.is_token(case['boundary']):
        p['non_token_boundary'] += 1
    p['framing:' + case['framing']] += 1
    p['status:%s' % o.resp.code] += 1
    res['steps'] = o.stream.n_calls
    res['nontrivial'] = bool(f)
    res['digest'] = log.digest()
    if case['sched']['mode'] in ('rand', 'regular'):
        exp = dict(case)
        exp['sched'] = {'mode': 'script', 'sizes': o.stream.sizes_script()}
        res['explicit'] = exp
    return res


def _shrink_candidates(case):
    fields = case['fields']

    def refit(c):
        """recompute framing details that depend on the body length"""
        if c['framing'] == 'chunked':
            body, _ = gm.encode_fields(c['fields'], c['boundary'], tail=unhx(c['tail']))
            c['chunk_sizes'] = [len(body)] if body else []
        return c

    for sc in simpler_schedules(case['sched']):
        yield shrink.with_key(case, 'sched', sc)
    if case['framing'] == 'chunked':
        c = dict(case)
        c['framing'] = 'cl'
        yield c
    for fs in shrink.list_cands(fields):
        yield refit(dict(case, fields=fs))
    for i, f in enumerate(fields):
        def rep(**kw):
            return refit(dict(case, fields=fields[:i] + [dict(f, **kw)] + fields[i + 1:]))
        if 'filename' in f:
            d = unhx(f['data'])
            for nd in shrink.bytes_cands(d):
                if gm.delim(case['boundary']) not in nd:
                    yield rep(data=hx(nd))
            if len(f['filename']) > 1:
                yield rep(filename='a')
                for ch in f['filename']:
                    if ch != 'a':
                        yield rep(filename=ch)
            if f.get('ctype'):
                yield rep(ctype=None)
        else:
            if f['value']:
                yield rep(value='')
                yield rep(value=f['value'][:len(f['value']) // 2])
        if len(f['name']) > 1:
            yield rep(name='a')
            for ch in f['name']:
                yield rep(name=ch)
    if case['boundary'] not in ('b', 'bnd'):
        for nb in ('b', 'bnd'):
            if not any(gm.delim(nb) in (unhx(f['data']) if 'filename' in f else f['value'].encode()) for f in fields):
                c = dict(case, boundary=nb)
                if case['quoted'] and not gm.is_token(case['boundary']):
                    pass
                yield refit(c)
    if case['quoted'] and gm.is_token(case['boundary']):
        yield dict(case, quoted=False)
    if case['tail'] != '0d0a':
        yield refit(dict(case, tail='0d0a'))
    for B in (102400,):
        if B != case['B']:
            yield dict(case, B=B)
    if case['temp'] != 'mem':
        yield dict(case, temp='mem')
    if case.get('prog'):
        c = dict(case)
        c.pop('prog')
        yield c
        for k in list(case['prog']):
            yield dict(case, prog={k2: v for k2, v in case['prog'].items() if k2 != k})
    if len(case['touch']) > 1:
        for t in case['touch']:
            yield dict(case, touch=[t])


# ---- concurrent twin runs (sim.twin): a share of the seeded cases is served by 2-3 threads at once --------
from .. import twin as _twin   # noqa: E402

TWIN_SHARE = 0.05


def gen_case(rng, tier):
    return _twin.maybe_wrap(rng, _gen_case(rng, tier), TWIN_SHARE, gen_other=lambda r: _gen_case(r, tier),
                            ok=lambda c: not (c.get('prog') or {}).get('before'))


def run_case(case):
    if 'twin' in case:
        return _twin.run(lambda inner, i: _run_case(inner), case)
    return _run_case(case)


def shrink_candidates(case):
    if 'twin' in case:
        yield from _twin.shrink_candidates(case, _shrink_candidates)
        return
    yield from _shrink_candidates(case)


def summarise(case):
    if 'twin' in case:
        return {'twin_of': _summarise(case["twin"]), 'threads': case.get('n', 2), 'plan': case['plan']}
    return _summarise(case)


def setup_worker():
    _twin.warm(_gen_case, _run_case)


TWIN_SWEEPS = {'quick': 10, 'thorough': 200}


def sweep_units(tier, root):
    units = []
    # exhaustive single pre-emption over small cases: one unit = one case x every traced step of its solo run
    units += [{'twin_sweep': i, 'seed': (root * 2654435761 + i * 40503) & 0xffffffff} for i in range(TWIN_SWEEPS[tier])]
    return units


def expand_unit(u):
    if 'twin_sweep' not in u:
        return
        return
    import random as _random
    rng = _random.Random(u['seed'])
    for _ in range(50):
        inner = _gen_case(rng, 'quick')
        if len(repr(inner)) < 1500:
            break
    yield from _twin.sweep(lambda c, i: _run_case(c), inner)
