"""C06 — multipart parsing is independent of how the body is split into reads.

A pure schedule property: same bytes, different delivery.  Level 'a' feeds
MultipartMarkup.parse the chunks of a division directly and compares
(markups, error class) with the one-piece parse; level 'b' goes through
Ombott.__call__ with SimStream and compares (status, forms, files) with the
same request delivered in full reads.
"""
import random

from ..core import new_result, violation, Log, hx, unhx, digest
from ..stream import simpler_schedules
from ..bodyreq import body_request
from .. import gen_multipart as gm
from .. import shrink
from .. import twin as _twin

PROP = 'C06'
LEVEL = 'fault_enumeration'
BATCH = 300
TIERS = {
    'quick': {'runs': 400000, 'budget': 30},
    'thorough': {'runs': 4_000_000, 'budget': 480},
}
RULE = ('bodies: seeded well-formed multipart bodies (boundaries over RFC 2046 bchars incl. hyphen-only and '
        'self-overlapping ones, data assembled from delimiter fragments, with/without leading CRLF and epilogue) and '
        'their prefixes. sweep units: per body EVERY single cut, every double cut (length-bounded), byte-at-a-time, '
        'regular k-byte cuts for k=1..len(delimiter)+3, and every single cut of sampled prefixes; seeded runs: random '
        'multi-cut divisions, half of them through WSGI with varied buffer size. Non-trivial = at least one chunk '
        'edge fell where the parser carries state across chunks (pending delimiter remainder, header-end remainder, '
        'or the post-delimiter state machine mid-way). distinct = distinct (body, prefix, division) digests among '
        'non-trivial runs.')
STATE_MEASURE = ('distinct tuples (section eater, pending-delimiter-remainder length, header eater method, '
                 'pending CRLFCRLF remainder length, stopped flags) observed from outside at chunk edges')
COMPONENTS = {
    'real': ['ombott.request_pkg.multipart (MultipartMarkup, BodyMarkuper, HeadersEaeter, MatchTail)',
             'level b: Ombott.__call__, _body_read, FieldStorage, FileUpload'],
    'simulated': ['division of the body into reads (explicit cut lists)', 'wsgi.input (SimStream) and WSGI server at level b'],
    'stubbed': ['temp file: in-memory stub at level b'],
}
ASSUMPTIONS = [
    'a read never returns an empty chunk before EOF (empty chunks are not fed to the parser)',
    'only the error class is compared, not its message (messages quote chunk-relative bytes)',
]

_REF_CACHE = {}


def parse_division(boundary, body, cuts, want_states=True, empties=()):
    """empties: edges (0 = before the first byte) at which an empty buffer is handed to the parser as well."""
    from ombott.request_pkg.multipart import MultipartMarkup
    mk = MultipartMarkup(boundary)
    # the carried state is read from outside for the reach measure only; a parser that keeps it elsewhere or under
    # other names is measured by its cut positions instead (never an alarm, never a harness error)
    m = getattr(mk, '_markuper', None)
    he = getattr(m, 'headers_eater', None)
    states = []
    prev = 0
    carried = 0
    edges = [c for c in cuts if 0 < c < len(body)]
    if 0 in empties:
        mk.parse(b'')
    for c in edges + [len(body)]:
        chunk = body[prev:c]
        prev = c
        if not chunk:
            continue
        mk.parse(chunk)
        if c in empties:
            mk.parse(b'')
        if want_states and c < len(body):
            try:
                st = (getattr(m.cur_meth, '__name__', '?'), min(m.trest_len or 0, 9),
                      getattr(he.eat_meth, '__name__', '?'),
                      len(he.headers_end_expected or b''), bool(m.stopped), bool(he.stopped),
                      mk.error is not None)
                inside = (m.trest is not None or he.headers_end_expected is not None
                          or st[2] not in ('_eat_first_crlf_or_last_hyphens', '?')
                          or st[0] == '_eat_start_boundary' or m.stopped or he.stopped)
            except Exception:       # noqa - internals not in the expected shape
                st = ('?', 0, '?', 0, False, False, mk.error is not None)
                inside = True
            states.append(st)
            if mk.error is None and inside:
                carried += 1
    markups = [[n, [s, e]] for n, (s, e) in mk.markups]
    err = type(mk.error).__name__ if mk.error is not None else None
    return (markups, err), states, carried


def parse_interleaved(b1, body1, cuts1, b2, body2, cuts2):
    """Two uploads parsed at the same time by two parser objects (two requests in flight, or a
    truncated upload followed by another one): their chunks arrive alternately."""
    from ombott.request_pkg.multipart import MultipartMarkup
    mks = [MultipartMarkup(b1), MultipartMarkup(b2)]
    bodies = [body1, body2]
    chunks = []
    for body, cuts in ((body1, cuts1), (body2, cuts2)):
        prev, lst = 0, []
        for c in [c for c in cuts if 0 < c < len(body)] + [len(body)]:
            if body[prev:c]:
                lst.append(body[prev:c])
            prev = c
        chunks.append(lst)
    i = 0
    while i < len(chunks[0]) or i < len(chunks[1]):
        for k in (0, 1):
            if i < len(chunks[k]):
                mks[k].parse(chunks[k][i])
        i += 1
    out = []
    for mk in mks:
        out.append(([[n, [s, e]] for n, (s, e) in mk.markups], type(mk.error).__name__ if mk.error is not None else None))
    return out


def _body_of(case):
    body, layout = gm.build(case['st'])
    if case.get('mut') is not None:
        # 1-2 grammar-level mutations (the C12 mutators): the first sentence of C06 speaks of any body
        from . import c12
        mrng = random.Random(case['mut']['seed'])
        for _ in range(case['mut']['n']):
            body, _op = c12.mutate_mp(mrng, body, case['st']['boundary'], layout)
            layout = []
    if case.get('plen') is not None:
        body = body[:case['plen']]
    return body


def _gen_case(rng, tier):
    level = 'b' if rng.random() < 0.5 else 'a'
    st = gm.gen_structure(rng, token_only=(level == 'b'), max_parts=4,
                          max_data=(60 if tier == 'quick' else rng.choice([60, 200, 2000])))
    body, _ = gm.build(st)
    case = {'st': st, 'level': level, 'plen': None}
    if rng.random() < 0.03:
        # a part with a very large header block (many extra part headers), read edges inside and around it
        pad = b'\r\n'.join(b'X-Pad-%d: %s' % (j, b'p' * 90) for j in range(rng.choice([60, 95, 120, 250])))
        hdr = gm.field_headers({'name': 'big', 'filename': 'x', 'ctype': 'a/b'}) + b'\r\n' + pad
        parts = [{'headers': hdr.hex(), 'data': b'payload'.hex()},
                 {'headers': gm.field_headers({'name': 'n', 'value': ''}).hex(), 'data': b'v'.hex()}]
        st = dict(st, parts=parts)
        body, layout = gm.build(st)
        case['st'] = st
        hs, he = layout[0][0], layout[0][1]
        cand = [hs + 1, (hs + he) // 2, he - 1, he + 1, he + 3, hs + 8100, hs + 8300]
        case['cuts'] = sorted({c for c in rng.sample(cand, rng.choice([0, 1, 2])) if 0 < c < len(body)})
        if level == 'b':
            case['B'] = rng.choice([64, 4096, 8192, 16384, 102400])
        return case
    if level == 'a' and rng.random() < 0.04:
        # a large part in front of small ones, and large reads whose edges fall in and around the later header
        # blocks (limits and offsets that only matter far into a body)
        big = rng.choice([8200, 9000, 20000, 70000])
        part0 = dict(st['parts'][0]) if st['parts'] else {'headers': gm.field_headers({'name': 'f', 'filename': 'x', 'ctype': 'a/b'}).hex(), 'data': ''}
        part0['data'] = (b'd' * big).hex()
        small = [{'headers': gm.field_headers({'name': 'n%d' % j, 'value': ''}).hex(), 'data': (b'v' * j).hex()} for j in (1, 2)]
        st = dict(st, parts=[part0] + small)
        body, layout = gm.build(st)
        case['st'] = st
        hs = layout[1][0] if len(layout) > 1 else len(body) // 2
        pos = sorted({max(1, min(len(body) - 1, hs + d)) for d in rng.sample(range(-12, 60), 3)})
        case['cuts'] = pos[:rng.choice([1, 2, 3])]
        return case
    if False and level == 'b':   # withdrawn, see DESIGN.md 11.4 (malformed bodies are outside C06's quantifier)
        # malformed body: compared at the user level only (status / forms / files), where a body that is refused
        # under one division must be refused under every division
        case['mut'] = {'seed': rng.getrandbits(32), 'n': rng.choice([1, 1, 2])}
        body = _body_of(case)
    elif rng.random() < 0.35 and len(body) > 1:
        case['plen'] = rng.randrange(1, len(body))
    n = len(body) if case['plen'] is None else case['plen']
    k = rng.choice([1, 2, 3, 5, 10, 30])
    case['cuts'] = sorted(set(rng.randrange(1, n) for _ in range(k))) if n > 1 else []
    if level == 'b':
        case['B'] = rng.choice([1, 2, 3, 5, 7, 16, 64, 256, 1024, 102400])
        if rng.random() < 0.3:
            # the body arrives chunk-encoded: transfer-chunk edges and read edges both divide it
            case['tchunks'] = [rng.choice([1, 2, 3, 7, 16, 50, 97, 1000]) for _ in range(rng.choice([1, 2, 3]))]
            wl = 2 * n + 64
            case['cuts'] = sorted(set(rng.randrange(1, wl) for _ in range(k)))
    elif rng.random() < 0.12:
        # a degenerate division: empty buffers handed to the parser at some of the edges (and at both ends)
        cand = [0] + case['cuts'] + [n]
        case['empties'] = sorted(set(rng.sample(cand, min(len(cand), rng.choice([1, 1, 2, 4])))))
    elif rng.random() < 0.15:
        # a second upload parsed at the same time by another parser object, chunks arriving alternately
        st2 = gm.gen_structure(rng, token_only=False, max_parts=3, max_data=40)
        b2, _ = gm.build(st2)
        oc = {'st': st2, 'plen': (rng.randrange(1, len(b2)) if rng.random() < 0.4 and len(b2) > 1 else None)}
        n2 = len(b2) if oc['plen'] is None else oc['plen']
        oc['cuts'] = sorted(set(rng.randrange(1, n2) for _ in range(rng.choice([1, 2, 3, 8])))) if n2 > 1 else []
        case['other'] = oc
    return case


def sweep_units(tier, root):
    n = 48 if tier == 'quick' else 1600
    return [{'seed': (root * 6151 + i * 786433) & 0xffffffff, 'i': i} for i in range(n)]


def expand_unit(u):
    rng = random.Random(u['seed'])
    thorough = u['i'] >= 48
    st = gm.gen_structure(rng, token_only=False, max_parts=3, max_data=(30 if not thorough else rng.choice([30, 60])))
    body, _ = gm.build(st)
    n = len(body)
    if n > 420:
        return
    base = {'st': st, 'level': 'a', 'plen': None}
    tlen = len(st['boundary']) + 4

    def emit(cuts, plen=None):
        c = dict(base)
        c['cuts'] = cuts
        c['plen'] = plen
        return c
    # every single cut
    for c in range(1, n):
        yield emit([c])
    # byte-at-a-time and regular cuts
    for k in range(1, tlen + 4):
        yield emit(list(range(k, n, k)))
    # every double cut (bounded length)
    lim = 70 if not thorough else 200
    if n <= lim:
        for c1 in range(1, n):
            for c2 in range(c1 + 1, n):
                yield emit([c1, c2])
    else:
        for _ in range(1500):
            c1 = rng.randrange(1, n)
            c2 = rng.randrange(1, n)
            if c1 != c2:
                yield emit(sorted((c1, c2)))
    # prefixes: every single cut of sampled prefixes (all prefixes for short bodies)
    plens = list(range(2, n)) if n <= 90 else sorted(rng.sample(range(2, n), 60))
    for pl in plens:
        for c in range(1, pl):
            yield emit([c], pl)
        yield emit(list(range(1, pl)), pl)
    # the same single cuts through WSGI for token boundaries
    if gm.is_token(st['boundary']):
        for c in range(1, n, 1 if n < 120 else 3):
            cc = emit([c])
            cc['level'] = 'b'
            cc['B'] = rng.choice([3, 7, 64, 102400])
            yield cc


def _summarise(case):
    body = _body_of(case)
    return {'boundary': case['st']['boundary'], 'body': body[:300].decode('latin1'), 'len': len(body),
            'prefix_of_wellformed': case.get('plen') is not None, 'cuts': case['cuts'][:40], 'level': case['level'],
            'B': case.get('B')}


def _ref_a(boundary, body):
    key = (boundary, body)
    r = _REF_CACHE.get(key)
    if r is None:
        if len(_REF_CACHE) > 64:
            _REF_CACHE.clear()
        r = parse_division(boundary, body, [], want_states=False)[0]
        _REF_CACHE[key] = r
    return r


def _canon_b(o):
    if o.hang is not None:
        return {'hang': True}
    return {'status': o.resp.code, 'forms': o.seen.get('forms'), 'files': o.seen.get('files'),
            'escaped': repr(o.resp.escaped) if o.resp.escaped else None}


def _run_case(case):
    res = new_result()
    log = Log(case.get('_seed'))
    st = case['st']
    body = _body_of(case)
    cuts = case['cuts']
    boundary = st['boundary'].encode()
    n = len(body)
    log('len', n, 'cuts', cuts, 'level', case['level'])
    if case['level'] == 'a':
        got, states, carried = parse_division(boundary, body, cuts, empties=case.get('empties') or ())
        if case.get('empties'):
            res['fired']['empty_read_buffer'] += 1
        ref = _ref_a(boundary, body)
        log('got', digest(got))
        if case.get('other') is not None:
            oc = case['other']
            body2 = _body_of(oc)
            bnd2 = oc['st']['boundary'].encode()
            both = parse_interleaved(boundary, body, cuts, bnd2, body2, oc['cuts'])
            refs = [ref, _ref_a(bnd2, body2)]
            log('interleaved', digest(both))
            res['fired']['two_parsers_interleaved'] += 1
            for k in (0, 1):
                if both[k] != refs[k]:
                    violation(res, 'C06:interleaved-parsers-interfere',
                              f'upload {k} parsed while another parser object was fed in between gives {_short(both[k])}; '
                              f'alone in one piece it gives {_short(refs[k])}', got=both[k], ref=refs[k])
                    break
        if case.get('plen') is None and case.get('mut') is None:
            # reference-free clause for complete well-formed bodies: the one-piece parse computed in this process must
            # itself be the list of parts the body was built from - a parser object that inherits state from parses this
            # process did earlier gives the same wrong answer for every division, which the comparison below cannot see
            exp = gm.expected_markups(st)
            if exp is not None:
                want = ([[nm, [a, b]] for nm, (a, b) in exp], None)
                if (ref[0], ref[1]) != want:
                    violation(res, 'C06:result-depends-on-earlier-parses',
                              f'a complete well-formed {n}-byte body parsed in one piece gives {_short(ref)}, the parts it was '
                              f'built from are {len(exp)} sections without error: the parser carries state from earlier parses '
                              f'of this process', got=ref, ref=want)
        if got != ref:
            violation(res, 'C06:division-dependent',
                      f'division {cuts[:8]} of a {n}-byte {"prefix" if case.get("plen") is not None else "body"} gives '
                      f'{_short(got)}; one piece gives {_short(ref)}', got=got, ref=ref)
        res['states'] = {repr(s) for s in states}
        res['steps'] = len(cuts) + 1
        if carried:
            res['fired']['edge_in_carried_state'] += 1
        for s in states:
            if s[1]:
                res['probes']['edge:pending_delimiter_remainder'] += 1
            if s[3]:
                res['probes']['edge:pending_header_end'] += 1
            if s[2] in ('_eat_lf', '_eat_last_hyphen'):
                res['probes']['edge:' + s[2]] += 1
            if s[4] or s[5]:
                res['probes']['edge:after_closing_delimiter'] += 1
    else:
        B = case['B']
        ctype = gm.content_type_header(st['boundary'])
        if case.get('tchunks'):
            wire = bytearray()
            pos, i = 0, 0
            while pos < n:
                sz = min(n - pos, case['tchunks'][i % len(case['tchunks'])])
                i += 1
                wire += b'%x\r\n' % sz + body[pos:pos + sz] + b'\r\n'
                pos += sz
            wire = bytes(wire) + b'0\r\n\r\n'
            wcuts = [c for c in cuts if 0 < c < len(wire)]
            res['probes']['level_b_chunked'] += 1
            o = body_request(wire, {'mode': 'cuts', 'cuts': wcuts}, B=B, chunked=True, ctype=ctype, tempmode='mem',
                             touch=('forms', 'files'), cfgvia='ctor')
            r = body_request(wire, {'mode': 'full'}, B=B, chunked=True, ctype=ctype, tempmode='mem',
                             touch=('forms', 'files'), cfgvia='ctor')
        else:
            o = body_request(body, {'mode': 'cuts', 'cuts': cuts}, B=B, cl=n, ctype=ctype, tempmode='mem',
                             touch=('forms', 'files'))
            r = body_request(body, {'mode': 'full'}, B=B, cl=n, ctype=ctype, tempmode='mem', touch=('forms', 'files'))
        got, ref = _canon_b(o), _canon_b(r)
        if case.get('mut') is not None:
            # malformed bodies: *which* client error is reported may depend on which defect a division lets the
            # parser notice first (the parser documents that it only catches obvious CRLF errors); what must not
            # depend on the division is whether the upload is accepted, and what it delivers when it is
            for x in (got, ref):
                if isinstance(x.get('status'), int) and 400 <= x['status'] < 500:
                    x['status'] = '4xx'
                    x['forms'] = x['files'] = None
        log('got', digest(got))
        if case.get('mut') is not None:
            res['probes']['mutated_body'] += 1
        if got != ref:
            violation(res, 'C06:division-dependent-wsgi' + ('-malformed' if case.get('mut') is not None else ''),
                      f'through WSGI (B={B}) division {cuts[:8]} gives status {got.get("status")}, full reads give '
                      f'{ref.get("status")} (forms/files differ: {got.get("forms") != ref.get("forms")}/{got.get("files") != ref.get("files")})')
        if B > n:
            # full delivery with B > len is the one-piece parse: cross-check against level a's reference
            pass
        res['steps'] = o.stream.n_calls
        if o.stream.n_short:
            res['fired']['short_read_through_wsgi'] += 1
        res['probes']['wsgi_status:%s' % got.get('status')] += 1
    if case.get('plen') is not None:
        res['probes']['prefix_runs'] += 1
    if st.get('tail'):
        res['probes']['with_epilogue_or_crlf'] += 1
    res['probes']['level:' + case['level']] += 1
    res['nontrivial'] = bool(res['fired'])
    res['digest'] = log.digest()
    return res


def _short(r):
    if isinstance(r, tuple):
        return f'({len(r[0])} sections, error={r[1]})'
    return str(r)[:80]


def _shrink_candidates(case):
    st = case['st']
    full, _ = gm.build(st)

    def rebuild(new_st):
        """two variants: cut offsets kept from the start, and kept from the end"""
        nb, _ = gm.build(new_st)
        delta = len(nb) - len(full)
        out = []
        for shift in ((0, delta) if delta else (0,)):
            c = dict(case)
            c['st'] = new_st
            if case.get('plen') is not None:
                pl = case['plen'] + shift
                c['plen'] = min(pl, len(nb) - 1) if len(nb) > 1 and pl > 0 else None
            lim = c['plen'] if c.get('plen') is not None else len(nb)
            c['cuts'] = sorted(set(x + shift for x in case['cuts'] if 0 < x + shift < lim))
            out.append(c)
        return out

    for i in range(len(case.get('empties') or ())):
        yield shrink.with_key(case, 'empties', case['empties'][:i] + case['empties'][i + 1:])
    # fewer cuts first (cheapest)
    for sc in simpler_schedules({'mode': 'cuts', 'cuts': case['cuts']}):
        if sc['mode'] == 'cuts':
            yield shrink.with_key(case, 'cuts', sc['cuts'])
    if case.get('plen') is not None:
        for v in shrink.int_cands(case['plen'], 1):
            c = dict(case)
            c['plen'] = v
            c['cuts'] = [x for x in case['cuts'] if x < v]
            yield c
        c = dict(case)
        c['plen'] = None
        yield c
    parts = st['parts']
    # drop trailing parts first (keeps offsets of earlier cuts), then others
    for ps in [parts[:-1]] + list(shrink.list_cands(parts)):
        if len(ps) < len(parts):
            yield from rebuild(dict(st, parts=ps))
    if st.get('tail'):
        yield from rebuild(dict(st, tail=''))
        t = unhx(st['tail'])
        if len(t) > 1:
            yield from rebuild(dict(st, tail=hx(t[:len(t) // 2])))
    for i in range(len(parts) - 1, -1, -1):
        p = parts[i]
        d = unhx(p['data'])
        for nd in shrink.bytes_cands(d):
            if gm.delim(st['boundary']) in nd:
                continue
            yield from rebuild(dict(st, parts=parts[:i] + [dict(p, data=hx(nd))] + parts[i + 1:]))
        h = unhx(p['headers'])
        simple = b'Content-Disposition: form-data; name="a"'
        if h != simple:
            yield from rebuild(dict(st, parts=parts[:i] + [dict(p, headers=hx(simple))] + parts[i + 1:]))
    if st.get('lead_crlf'):
        yield from rebuild(dict(st, lead_crlf=False))
    b = st['boundary']
    for nb in ('a', 'ab', b[:len(b) // 2], b[:-1]):
        if nb and nb != b and len(nb) <= len(b) and not any(gm.delim(nb) in unhx(p['data']) for p in parts):
            yield from rebuild(dict(st, boundary=nb))
    if case['level'] == 'b':
        for B in (102400, 64, 7):
            if B != case['B']:
                yield shrink.with_key(case, 'B', B)
        if True:
            c = dict(case)
            c['level'] = 'a'
            c.pop('B', None)
            yield c


# ---- concurrent twins of the WSGI-level cases (the same upload served by 2-3 threads through one application) -------

TWIN_SHARE = 0.03


def gen_case(rng, tier):
    return _twin.maybe_wrap(rng, _gen_case(rng, tier), TWIN_SHARE, est_steps=2500, gen_other=lambda r: _gen_case(r, tier),
                            ok=lambda c: c['level'] == 'b' and len(c['st'].get('parts', [])) <= 4
                            and sum(len(p['data']) for p in c['st']['parts']) <= 4000)


def run_case(case):
    if 'twin' in case:
        return _twin.run(lambda inner, i: _run_case(inner), case)
    return _run_case(case)


def shrink_candidates(case):
    if 'twin' in case:
        yield from _twin.shrink_candidates(case, _shrink_candidates)
        return
    yield from _shrink_candidates(case)


def summarise(case):
    if 'twin' in case:
        return {'twin_of': _summarise(case['twin']), 'threads': case.get('n', 2), 'plan': case['plan']}
    return _summarise(case)


def setup_worker():
    _twin.warm(_gen_case, _run_case)
