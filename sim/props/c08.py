"""C08 — concurrent requests on one application never see each other.

E-sched.  One Ombott application (sim/apps/echo.py, traced) serves 2-3 requests
on 2-3 real threads.  Which thread runs is decided by the deterministic
scheduler at every traced line (or bytecode instruction) of the framework and handler code,
from the run seed; the executed switch list is recorded and replays the run.

Oracles (history check after the run):
  * marker isolation - every value a handler read from app.request /
    app.response (reported harness-side through note()) and every part of the
    thread's WSGI response (status line, headers, body) mentions no other
    request's marker;
  * served-alone equivalence - the notes and the complete response of each
    thread equal those of the same request spec served alone on a fresh
    application in a fresh thread;
  * nothing escapes app().
Sweep units: for ordered pairs of request kinds, thread A is pre-empted exactly
once at step s, for every s of its solo trace, B runs to completion, A resumes
(the "exhaustive up to one pre-emption" part of the quantifier).
"""
import contextvars
import io
import re
import random

from ..core import new_result, violation, Log, digest, HarnessError, REPO
from ..wsgi import make_environ, call_app
from ..sched import Sched, gen_plan, simpler_plans
from .. import shrink
from ..apps import echo
from .. import pristine

PROP = 'C08'
LEVEL = 'exploration'
BATCH = 60
TIERS = {
    'quick': {'runs': 60000, 'budget': 40},
    'thorough': {'runs': 6_000_000, 'budget': 480},
}
RULE = ('seeded runs: 2-3 request specs (kinds: echo GET/POST/HEAD, multipart upload, raised HTTPError / HTTPResponse, '
        'custom 418 error handler, crashing handler (500 page), lazily-run generator body, 404, 405, JSON-requesting 404, '
        'malformed and well-formed chunked bodies, over-limit body, undecodable path) x application config x schedule '
        'strategy (uniform(p), PCT(d), explicit random switch points) x granularity (line; instruction in a quarter of the seeded runs). Sweep '
        'units: ordered pairs of kinds, thread 0 pre-empted exactly once at step s for every s of its solo trace. A '
        'run is non-trivial when at least one thread was pre-empted in the middle of its request so that another request ran meanwhile. '
        'distinct = distinct (specs, executed switch list) digests among non-trivial runs; states = distinct pairs '
        '(code location where the pre-empted request stands, code location where the resumed request stands).')
STATE_MEASURE = 'distinct (pre-empted location, resumed location) pairs, location = file:function:line'
COMPONENTS = {
    'real': ['ombott (one shared Ombott: __call__/_handle/_cast, Request, Response, ts_props, HeaderDict, body reader, '
             'multipart, error pages, router)', 'threading.local', 'real threads (one per simulated request)'],
    'simulated': ['thread scheduler (sim.sched: baton passing, sys.settrace line events / sys.monitoring INSTRUCTION events as pre-emption points)',
                  'WSGI server (sim.wsgi.call_app)', 'wsgi.input (io.BytesIO)'],
    'stubbed': [],
}
ASSUMPTIONS = [
    'pre-emption happens only between traced lines / instructions of /repo/ombott and of the handler module; stdlib and C code run atomically',
    'the error-page template cache and filter cache are warm (one request of every kind is served per worker before the first run) '
    'except in runs marked cold, which empty the template cache first',
]

PREFIXES = (REPO.rstrip('/') + '/ombott/', echo.__file__.rsplit('/', 1)[0] + '/')
KINDS = ['echo_get', 'echo_post', 'echo_head', 'upload', 'raise_err', 'raise_resp', 'teapot', 'crash', 'gen',
         'notfound', 'notallowed', 'json404', 'badchunk', 'chunked_ok', 'big', 'badpath', 'echo_put', 'hookcrash', 'badchunk_json', 'badjson', 'goodjson', 'badchunk_sizeline', 'busy_str', 'limit_num', 'upload_typed', 'upload_plain', 'badmultipart', 'boom_fixed_url', 'fixed_get', 'fixed_post', 'fixed_fail', 'panel', 'public', 'session', 'charset', 'dated', 'reqerr', 'reqerr_json', 'filtered', 'lazy_badchunk', 'lazy_big', 'lazy_ok']
CHARSETS = ['latin1', 'utf-16-le', 'utf-8', 'cp1252', 'iso-8859-15']
_MARK = re.compile(r'Z\d+z')


def gen_spec(rng, i, kind=None):
    kind = kind or rng.choice(KINDS)
    m = 'Z%dz' % (i * 7 + rng.randrange(1, 3))      # unique per position, two lengths; low entropy keeps the reference cache warm
    spec = {'kind': kind, 'm': m, 'status': 200}
    if kind in ('echo_get', 'echo_post', 'echo_head', 'gen', 'echo_put'):
        spec['status'] = rng.choice([200, 201, 203, 206])
    elif kind == 'raise_err':
        spec['status'] = rng.choice([400, 403, 404, 409, 500, 503])
    elif kind == 'raise_resp':
        spec['status'] = rng.choice([200, 202, 302])
        spec['resp'] = True
    elif kind == 'charset':
        # a text response in a charset of the handler's choosing (different for neighbouring positions), non-ASCII content
        spec['cs'] = CHARSETS[(2 * i + rng.randrange(2)) % len(CHARSETS)]
        spec['as_gen'] = rng.random() < 0.5
    return spec


def environ_of(spec):
    m, kind = spec['m'], spec['kind']
    import base64
    from ombott.common_helpers import cookie_encode
    signed = cookie_encode(('s', 'sv' + m), 'k3y').decode()
    headers = {'X-M': 'h' + m, 'Cookie': f'c=c{m}; d=d{m}; s="{signed}"',
               'Authorization': 'Basic ' + base64.b64encode(f'u{m}:p{m}'.encode()).decode(),
               'X-Forwarded-For': f'10.0.0.{len(m)}, 10.1.1.1', 'X-Requested-With': 'XMLHttpRequest' if len(m) % 2 else 'other'}
    method, path, kw = 'GET', None, {}
    body = None
    if kind == 'echo_get':
        path = '/echo/' + m
    elif kind == 'echo_head':
        method, path = 'HEAD', '/echo/' + m
    elif kind in ('echo_post', 'echo_put'):
        method, path = ('POST' if kind == 'echo_post' else 'PUT'), '/echo/' + m
        body = f'f=f{m}&g=1'.encode()
        kw = {'content_length': len(body), 'content_type': 'application/x-www-form-urlencoded'}
    elif kind == 'upload':
        method, path = 'POST', '/upload/' + m
        b = 'bnd' + m
        body = (f'--{b}\r\nContent-Disposition: form-data; name="t"\r\n\r\ntext-{m}\r\n'
                f'--{b}\r\nContent-Disposition: form-data; name="up"; filename="n{m}.bin"\r\n'
                f'Content-Type: application/octet-stream\r\n\r\n' + (m * 40) + f'\r\n--{b}--\r\n').encode()
        kw = {'content_length': len(body), 'content_type': f'multipart/form-data; boundary={b}'}
    elif kind in ('upload_typed', 'upload_plain'):
        method, path = 'POST', '/upload/' + m
        b = 'bnd' + m
        extra = (f'Content-Type: image/png\r\nX-Upload-Token: t{m}\r\n' if kind == 'upload_typed' else '')
        body = (f'--{b}\r\nContent-Disposition: form-data; name="up"; filename="n{m}.bin"\r\n{extra}\r\n'
                + (m * 5) + f'\r\n--{b}--\r\n').encode()
        kw = {'content_length': len(body), 'content_type': f'multipart/form-data; boundary={b}'}
    elif kind == 'badmultipart':
        # does not start with its boundary: a markup error that has no errors_map entry of its own class
        method, path = 'POST', '/upload/' + m
        body = (f'garbage-{m}\r\n--bnd--\r\n').encode()
        kw = {'content_length': len(body), 'content_type': 'multipart/form-data; boundary=bnd'}
    elif kind in ('raise_err', 'raise_resp'):
        path = '/raise/' + m
    elif kind == 'teapot':
        path = '/teapot/' + m
    elif kind == 'crash':
        path = '/crash/' + m
    elif kind == 'gen':
        path = '/gen/' + m
    elif kind == 'notfound':
        path = '/nope/' + m
    elif kind == 'json404':
        path = '/nope/' + m
        headers['Accept'] = 'application/json'
    elif kind == 'notallowed':
        method, path = 'POST', '/only-get/' + m
    elif kind == 'badchunk':
        method, path = 'POST', '/body/' + m
        body = b'5\r\n' + m.encode()[:3]
        kw = {'chunked': True}
    elif kind == 'chunked_ok':
        method, path = 'POST', '/body/' + m
        d = (m * 3).encode()
        body = b'%x\r\n%s\r\n%x;e=1\r\n%s\r\n0\r\n\r\n' % (len(d), d, len(m), m.encode())
        kw = {'chunked': True}
    elif kind == 'big':
        method, path = 'POST', '/body/' + m
        body = (m * 900).encode()
        kw = {'content_length': len(body)}
    elif kind == 'badpath':
        path = '/echo/\xff' + m
    elif kind == 'badchunk_json':
        method, path = 'POST', '/body/' + m
        body = b'zz\r\n' + m.encode()
        kw = {'chunked': True}
        headers['Accept'] = 'application/json'
    elif kind in ('badjson', 'goodjson'):
        method, path = 'POST', '/json/' + m
        body = ('{"m": "%s"' % m).encode() + (b'}' if kind == 'goodjson' else b', ]')
        kw = {'content_length': len(body), 'content_type': 'application/json'}
    elif kind == 'badchunk_sizeline':
        # the stream ends inside a chunk-size line, after a digit
        method, path = 'POST', '/body/' + m
        body = b'3\r\n' + m.encode()[:3] + b'\r\n1'
        kw = {'chunked': True}
    elif kind == 'panel':
        path = '/panel'
    elif kind == 'public':
        path = '/public'
    elif kind == 'session':
        path = '/session'
        sess = cookie_encode(('sess', {'visits': 3, 'seen': ['x']}), 'k3y').decode()
        headers['Cookie'] = f'c=c{m}; sess="{sess}"'        # the session cookie is byte-identical for every request
    elif kind == 'boom_fixed_url':
        path = '/boom'
    elif kind in ('fixed_get', 'fixed_post', 'fixed_fail'):
        path = '/fixed'
        headers['Cookie'] = 'c=same-for-everybody; d=also'      # byte-identical Cookie header in every such request
        if kind == 'fixed_post':
            method = 'POST'
            body = f'f=f{m}'.encode()
            kw = {'content_length': len(body), 'content_type': 'application/x-www-form-urlencoded'}
        if kind == 'fixed_fail':
            headers['X-Fail'] = '1'
    elif kind == 'charset':
        path = '/charset/' + m
    elif kind == 'busy_str':
        path = '/busy/' + m
    elif kind == 'dated':
        path = '/dated/' + m
    elif kind in ('lazy_badchunk', 'lazy_big', 'lazy_ok'):
        # a streaming handler that reads the body inside its generator: malformed chunked / over the limit / fine
        method, path = 'POST', '/lazybody/' + m
        if kind == 'lazy_badchunk':
            body = b'5\r\n' + m.encode()[:3]
            kw = {'chunked': True}
        elif kind == 'lazy_big':
            body = (m * 900).encode()
            kw = {'content_length': len(body)}
        else:
            body = ('ok-' + m).encode()
            kw = {'content_length': len(body)}
    elif kind == 'filtered':
        path = '/u/%s/p/%d/seg/%s/x/end' % (m, int(m[1:-1]) + 100, m)
    elif kind in ('reqerr', 'reqerr_json'):
        path = '/reqerr/' + m
        if kind == 'reqerr_json':
            headers['Accept'] = 'application/json'
    elif kind == 'limit_num':
        path = '/limit/' + m
    elif kind == 'hookcrash':
        path = '/echo/' + m
    else:
        raise HarnessError(f'unknown kind {kind}')
    query = f'm={m}&x=1' + ('&hc=1' if kind == 'hookcrash' else '')
    if kind in ('boom_fixed_url', 'fixed_get', 'fixed_post', 'fixed_fail', 'panel', 'public', 'session'):
        query = 'x=1'
    env = make_environ(method, path, query, headers, stream=io.BytesIO(body or b''), **kw)
    env['sim.m'] = m
    return env


def environ_method(spec):
    k = spec['kind']
    if k == 'echo_head':
        return 'HEAD'
    return 'GET'


def wellformed(r, method):
    """PEP 3333 shape + the framework-set Content-Length equals the bytes produced + Content-Type
    agrees with the kind of body (an HTML error page must not be labelled JSON and vice versa)."""
    from ..wsgi import validate
    out = [f'{c}: {msg}' for c, msg in validate(r, method=method)]
    if r.escaped is None and r.headers is not None:
        cl = r.header('Content-Length')
        if cl is not None and method != 'HEAD' and r.code not in (100, 101, 204, 304):
            if not cl.isdigit() or int(cl) != len(r.body):
                out.append(f'Content-Length {cl!r} but {len(r.body)} body bytes were produced')
        if len(r.header_all('Content-Length')) > 1 or len(r.header_all('Content-Type')) > 1:
            out.append('duplicate Content-Length / Content-Type header')
        ct = r.header('Content-Type') or ''
        if r.body[:9].lower() == b'<!doctype' and 'json' in ct:
            out.append(f'HTML page labelled {ct!r}')
        if r.body[:1] == b'{' and r.body[-1:] == b'}' and r.code and r.code >= 400 and 'html' in ct:
            out.append(f'JSON error body labelled {ct!r}')
    return out


def own_text_problems(r, spec):
    """Reference-free clause for the `charset` kind: the body is the handler's text in the charset the handler
    declared (an encoding picked up from another request's response shows here even when both threads agree)."""
    if spec['kind'] != 'charset' or r.escaped is not None or r.code != 200:
        return []
    want = 'caf\xe9-' + spec['m'] + '-\xfc\xdf'
    ct = r.header('Content-Type') or ''
    out = []
    if ct.replace(' ', '').lower() != ('text/plain;charset=' + spec['cs']).lower():
        out.append(f'Content-Type is {ct!r}, the handler declared charset {spec["cs"]}')
    try:
        got = r.body.decode(spec['cs'])
    except UnicodeDecodeError:
        got = None
    if got != want:
        out.append(f'body {r.body[:40]!r} is not the handler\'s text {want!r} in the declared charset {spec["cs"]}')
    return out


def new_app(cfg):
    import ombott
    app = ombott.Ombott({'debug': cfg.get('debug', False), 'max_body_size': 2000,
                         'max_memfile_size': cfg.get('B', 102400)})
    echo.build(app)
    return app


class Outcome:
    __slots__ = ('resp', 'notes', 'error')


def serve(app, spec, out):
    """Body of one request thread."""
    echo.begin(spec)
    env = environ_of(spec)
    r = call_app(app, env)
    out.resp = r
    out.notes = list(echo.notes())


def canon_resp(r):
    c = r.canon()
    c['errors'] = bool(r.errors_text)
    return c


_ALONE = {}


def served_alone(spec, cfg, gran):
    """The same spec on a fresh application in a fresh thread (under a 1-thread
    scheduler, which also yields the length of its solo trace)."""
    k = digest([spec, cfg, gran])
    got = _ALONE.get(k)
    if got is None:
        app = new_app(cfg)
        out = Outcome()
        s = Sched(1, {'mode': 'explicit', 'first': 0, 'switches': []}, prefixes=PREFIXES, granularity=gran, max_steps=4_000_000)
        s.run([lambda: serve(app, spec, out)])
        if s.errors[0] is not None:
            raise HarnessError(f'served-alone run raised {type(s.errors[0]).__name__}: {s.errors[0]}')
        ref = restart_reference(spec, cfg)
        if ref is None:
            ref = (canon_resp(out.resp), out.notes, 0)
        got = (ref[0], ref[1], s.step)
        if len(_ALONE) > 3000:
            _ALONE.clear()
        _ALONE[k] = got
    return got


_PLAIN = {}


def plain_reference(spec, cfg):
    """Executed inside a pristine child process (sim.pristine): the spec on a fresh application in a fresh
    thread of a process that has never served anything."""
    import threading
    app = new_app(cfg)
    out = Outcome()
    err = []

    def body():
        try:
            serve(app, spec, out)
        except BaseException as e:   # noqa
            err.append(repr(e))
    t = threading.Thread(target=body)
    t.start()
    t.join(25)
    if err or t.is_alive():
        raise RuntimeError(f'reference request failed: {err or "still running"}')
    return canon_resp(out.resp), out.notes


def restart_reference(spec, cfg):
    """The same spec after a *restart*: fresh process state, fresh application, fresh thread.  Cached per
    (spec, config): a pure function of its key.  Returns None when the reference itself never answers."""
    k = digest([spec, cfg])
    got = _PLAIN.get(k)
    if got is None:
        status, val = pristine.call('sim.props.c08', 'plain_reference', spec, cfg)
        if status == 'timeout':
            return None
        if status != 'ok':
            raise HarnessError(f'pristine reference failed: {val}')
        got = (val[0], val[1], 0)
        if len(_PLAIN) > 20000:
            _PLAIN.clear()
        _PLAIN[k] = got
    return got


_FLUSH = ['chunked_ok', 'echo_post', 'upload', 'goodjson', 'notfound']


def flush_process_state():
    """Serve a fixed sequence of well-formed requests on a scratch application before a run: whatever an
    earlier run of this process may have left in process-wide scratch state of the system under test is
    overwritten, so that what a run observes is caused by the run itself and replays from its own trace."""
    app = new_app({'debug': False, 'B': 102400})
    for i, kind in enumerate(_FLUSH):
        sp = {'kind': kind, 'm': 'Z0z', 'status': 200}
        echo.begin(sp)
        call_app(app, environ_of(sp))


def setup_worker():
    """Warm regime: every lazy process-global cache reaches its steady state
    before the first scheduled run."""
    pristine.start()        # before this process serves anything
    rng = random.Random(1)
    for gran in ('line', 'instr'):
        for kind in KINDS:
            for debug in (False, True):
                spec = gen_spec(rng, 0, kind)
                served_alone(spec, {'debug': debug, 'B': 102400}, gran)
    _ALONE.clear()


def gen_case(rng, tier):
    n = rng.choice([2, 2, 3])
    specs = [gen_spec(rng, i) for i in range(n)]
    if rng.random() < 0.25:
        # worker reuse under concurrency: some threads serve two requests in a row
        k = n
        for i in range(n):
            if rng.random() < 0.6:
                specs[i] = [specs[i], gen_spec(rng, k)]
                k += 1
    cfg = {'debug': rng.random() < 0.5, 'B': rng.choice([64, 102400])}
    gran = 'instr' if rng.random() < 0.25 else 'line'
    # (instruction granularity goes through sys.monitoring; the f_trace_opcodes mechanism is not used: CPython 3.12.1 segfaults under it in frames that
    #  handle exceptions - reproduced in ombott's BodyMixin._body; see DESIGN.md 10)
    est = 450 * sum(len(t) if isinstance(t, list) else 1 for t in specs) * (9 if gran == 'instr' else 1)
    return {'threads': specs, 'cfg': cfg, 'gran': gran, 'plan': gen_plan(rng, est, n),
            'cold': rng.random() < 0.15, 'ctx_copy': rng.random() < 0.2}


SWEEP_KINDS_QUICK = ['echo_post', 'raise_err', 'crash', 'gen', 'notfound', 'badchunk', 'upload', 'teapot']


def sweep_units(tier, root):
    kinds = SWEEP_KINDS_QUICK if tier == 'quick' else KINDS
    rng = random.Random(root ^ 0xC08)
    pairs = [(a, b) for a in kinds for b in kinds]
    if tier == 'quick':
        # always: pairs in which both requests walk the same stream / container code at the same time
        fixed = [('chunked_ok', 'chunked_ok'), ('upload', 'upload_typed'), ('echo_post', 'fixed_post'), ('badjson', 'badchunk_json'),
                 ('fixed_get', 'fixed_get'), ('session', 'session'), ('charset', 'charset'), ('dated', 'dated'), ('filtered', 'filtered')]
        pairs = fixed + rng.sample(pairs, 18)
    units = []
    for a, b in pairs:
        units.append({'a': a, 'b': b, 'debug': rng.random() < 0.5, 'seed': rng.getrandbits(32)})
    return units


def expand_unit(u):
    rng = random.Random(u['seed'])
    specs = [gen_spec(rng, 0, u['a']), gen_spec(rng, 1, u['b'])]
    cfg = {'debug': u['debug'], 'B': 102400}
    _, _, steps = served_alone(specs[0], cfg, 'line')
    for s in range(1, steps + 1):
        yield {'threads': specs, 'cfg': cfg, 'gran': 'line', 'cold': False,
               'plan': {'mode': 'explicit', 'first': 0, 'switches': [[s, 1]]}}


def summarise(case):
    return case


def foreign_markers(text, own):
    return sorted({x for x in _MARK.findall(text) if x != own})


def run_case(case):
    res = new_result()
    log = Log(case.get('_seed'))
    # a thread serves one request, or (worker reuse) a short list of requests one after the other
    lists = [t if isinstance(t, list) else [t] for t in case['threads']]
    cfg = case['cfg']
    gran = case.get('gran', 'line')
    n = len(lists)
    alone = [[served_alone(sp, cfg, gran) for sp in lst] for lst in lists]
    flush_process_state()
    saved_tpl = None
    if case.get('cold'):
        # after the flush (which renders an error page), so that the scheduled threads really start cold
        from ombott import error_render
        if isinstance(getattr(error_render, '_html_lns', None), list):
            saved_tpl = list(error_render._html_lns)
            del error_render._html_lns[:]
    app = new_app(cfg)
    outs = [[Outcome() for _ in lst] for lst in lists]
    inflight = set()
    overlap = [0]
    s = Sched(n, case['plan'], prefixes=PREFIXES, granularity=gran, max_steps=(4_000_000 if gran == 'instr' else 400_000))

    def on_switch(frm, to):
        # the pre-empted thread stands in the middle of its request while another request runs
        if frm in inflight:
            overlap[0] += 1
    s.on_switch = on_switch

    base_ctx = contextvars.copy_context() if case.get('ctx_copy') else None

    def make(i):
        def work():
            for j, sp in enumerate(lists[i]):
                serve(app, sp, outs[i][j])

        def fn():
            inflight.add(i)
            try:
                if base_ctx is not None:
                    # a worker that runs the call inside a copy of the context in which the application was built
                    # (what asyncio.to_thread / run_in_executor with a copied context do)
                    base_ctx.copy().run(work) if hasattr(base_ctx, 'copy') else contextvars.copy_context().run(work)
                else:
                    work()
            finally:
                inflight.discard(i)
        return fn
    s.run([make(i) for i in range(n)])
    if saved_tpl is not None:
        # back to the warm steady state, whether or not this run rendered an error page
        error_render._html_lns[:] = saved_tpl
    log('plan', case['plan']['mode'], 'executed', s.executed)
    for i in range(n):
        if s.errors[i] is not None:
            raise HarnessError(f'thread {i} harness code raised {type(s.errors[i]).__name__}: {s.errors[i]}')
    if any(len(lst) > 1 for lst in lists):
        res['probes']['worker_thread_reused'] += 1
    for i, j in [(i, j) for i in range(n) for j in range(len(lists[i]))]:
        sp = lists[i][j]
        m = sp['m']
        o = outs[i][j]
        r = o.resp
        canon = canon_resp(r)
        log('thread', i, sp['kind'], m, r.status, digest(canon), digest(o.notes))
        if r.escaped is not None:
            violation(res, 'C08:escape', f'thread {i} ({sp["kind"]} {m}): exception escaped app(): '
                                         f'{type(r.escaped).__name__}: {r.escaped}')
            continue
        # marker isolation
        for name, val in o.notes:
            f = foreign_markers(repr(val), m)
            if f:
                violation(res, 'C08:foreign-value-read',
                          f'thread {i} ({sp["kind"]} {m}) read {name} = {val!r}: mentions {f} (another request)')
                break
        text = (r.status or '') + '\n' + '\n'.join(f'{k}: {v}' for k, v in (r.headers or [])) + '\n' + r.body.decode('latin1')
        f = foreign_markers(text, m)
        if f:
            violation(res, 'C08:foreign-value-in-response',
                      f'thread {i} ({sp["kind"]} {m}): response mentions {f}: status {r.status!r}, headers {r.headers!r}')
        # intrinsic well-formedness (independent of any reference run: a reference served by the same
        # process shares process-wide objects such as the errors_map responses with the run under test)
        probs = wellformed(r, environ_method(sp)) + own_text_problems(r, sp)
        if probs:
            violation(res, 'C08:malformed-response', f'thread {i} ({sp["kind"]} {m}): ' + '; '.join(probs))
        # served-alone equivalence
        a_canon, a_notes, _ = alone[i][j]
        if o.notes != a_notes:
            d = next((j for j, (x, y) in enumerate(zip(o.notes, a_notes)) if x != y), min(len(o.notes), len(a_notes)))
            violation(res, 'C08:reads-differ-from-alone',
                      f'thread {i} ({sp["kind"]} {m}): note #{d} is {o.notes[d] if d < len(o.notes) else None!r}, '
                      f'served alone it is {a_notes[d] if d < len(a_notes) else None!r}')
        if canon != a_canon:
            diff = [k for k in a_canon if canon.get(k) != a_canon[k]]
            violation(res, 'C08:response-differs-from-alone',
                      f'thread {i} ({sp["kind"]} {m}): {diff} differ: got status {canon["status"]!r} headers '
                      f'{canon["headers"]!r}; alone: status {a_canon["status"]!r} headers {a_canon["headers"]!r}')
        res['probes']['kind:' + sp['kind']] += 1
    if s.capped:
        res['probes']['step_cap_hit'] += 1
    res['steps'] = s.step
    res['fired']['preempted_mid_request'] += overlap[0]
    res['fired']['switches'] += len(s.executed)
    res['probes']['plan:' + case['plan']['mode']] += 1
    res['probes']['gran:' + gran] += 1
    if case.get('cold'):
        res['probes']['cold_template_cache'] += 1
    res['states'] = {a + ' | ' + b for a, b in s.switch_locs}
    for a, b in s.switch_locs:
        fn = a.split(':')[1]
        if fn in ('_handle', '_cast', 'wsgi', 'apply', 'fget', 'fset', '__init__', 'init_wrapper', '__setitem__',
                  'headerlist', 'set_cookie', 'default_error_handler', 'render'):
            res['probes']['switch_in:' + fn] += 1
    res['nontrivial'] = overlap[0] > 0
    res['key'] = digest([lists, cfg, s.executed])
    res['digest'] = log.digest()
    exp = dict(case)
    exp['plan'] = s.explicit_plan()
    res['explicit'] = exp
    return res


def shrink_candidates(case):
    for p in simpler_plans(case['plan']):
        yield shrink.with_key(case, 'plan', p)
    th = case['threads']
    for i, t in enumerate(th):
        if isinstance(t, list) and len(t) > 1:
            for keep in t:
                yield shrink.with_key(case, 'threads', th[:i] + [keep] + th[i + 1:])
    if len(th) > 2:
        for i in range(len(th)):
            c = shrink.with_key(case, 'threads', th[:i] + th[i + 1:])
            # thread ids above i shift down
            sw = [[s, (t - 1 if t > i else t)] for s, t in c['plan'].get('switches', []) if t != i]
            c['plan'] = {'mode': 'explicit', 'first': 0, 'switches': sw}
            yield c
    if case.get('cold'):
        yield shrink.with_key(case, 'cold', False)
    if case['cfg'].get('debug'):
        c = shrink.with_key(case, 'cfg', dict(case['cfg'], debug=False))
        yield c
    if case.get('gran') in ('opcode', 'instr'):
        yield shrink.with_key(case, 'gran', 'line')
