"""E-sched: deterministic scheduling of real threads.

Every simulated request runs in a real threading.Thread (so threading.local
behaves exactly as in production) but only the thread that holds the baton
runs.  Each thread installs sys.settrace; every `line` event in a traced file is
a pre-emption point at which the scheduler - and only the scheduler - decides
whether another thread continues.  With granularity 'instr' the pre-emption
points are the individual bytecode instructions of the traced files instead
(sys.monitoring INSTRUCTION events; the older per-frame `f_trace_opcodes`
mechanism - granularity 'opcode' - crashes CPython 3.12.1 and is not used).  Untraced code (stdlib, C
code, the harness itself) runs atomically, so no stdlib lock is ever held at a
pre-emption point.

A *plan* decides the interleaving:

  {'mode': 'explicit', 'first': t, 'switches': [[step, to], ...]}     replay / sweeps / shrinking
  {'mode': 'uniform',  'seed': s, 'p': 0.02}                          switch with probability p at each point
  {'mode': 'pct',      'seed': s, 'd': 2, 'est': n}                   random priorities + d priority-change points

`step` is the global count of pre-emption points executed so far (all threads);
an explicit entry [step, to] means "when the global counter reaches `step`, the
baton goes to thread `to` if it is runnable and not already running".  Every
run records the switches it executed, which is the explicit plan replaying it.
"""
import sys
import math
import random
import threading


from .core import HarnessError


class SchedError(HarnessError):
    pass


class SchedAbort(BaseException):
    """Raised inside the scheduled threads (from the trace function) when the run exceeded its step
    cap: every thread unwinds, so that no thread is left spinning.  BaseException, so that the code
    under test cannot swallow it with `except Exception`."""


_ACTIVE = [None]      # the scheduler currently running (one at a time per process)


class _Monitor:
    """sys.monitoring plumbing for granularity 'instr'.  Code objects of the traced files get INSTRUCTION events
    when they are first entered during a run; at the end of the run all of it is switched off again, so that runs
    with another granularity (and everything else in the process) execute uninstrumented."""
    TOOL = 4
    claimed = False
    sched = None
    codes = []

    @classmethod
    def enable(cls, sched):
        mon = sys.monitoring
        if not cls.claimed:
            mon.use_tool_id(cls.TOOL, 'simsched')
            mon.register_callback(cls.TOOL, mon.events.PY_START, cls._on_start)
            mon.register_callback(cls.TOOL, mon.events.PY_RESUME, cls._on_start)
            mon.register_callback(cls.TOOL, mon.events.INSTRUCTION, cls._on_instruction)
            cls.claimed = True
        cls.sched = sched
        cls.codes = []
        mon.set_events(cls.TOOL, mon.events.PY_START | mon.events.PY_RESUME)
        mon.restart_events()

    @classmethod
    def disable(cls):
        mon = sys.monitoring
        mon.set_events(cls.TOOL, 0)
        for code in cls.codes:
            mon.set_local_events(cls.TOOL, code, 0)
        cls.codes = []
        cls.sched = None

    @classmethod
    def _on_start(cls, code, offset):
        s = cls.sched
        if s is not None:
            t = s._traced.get(code)
            if t is None:
                t = s._traced[code] = code.co_filename.startswith(s.prefixes)
            if t:
                sys.monitoring.set_local_events(cls.TOOL, code, sys.monitoring.events.INSTRUCTION)
                cls.codes.append(code)
        return sys.monitoring.DISABLE

    @classmethod
    def _on_instruction(cls, code, offset):
        s = cls.sched
        if s is not None:
            return s._on_instruction(code, offset)
        return None


class no_preempt:
    """Harness-side critical section: while held, traced lines are not pre-emption points.
    Used around set-up steps that are not part of the behaviour under test (registering the
    run's own route on a shared application).  A no-op when no scheduler is running."""

    def __enter__(self):
        s = _ACTIVE[0]
        if s is not None:
            s.hold += 1
        return self

    def __exit__(self, *exc):
        s = _ACTIVE[0]
        if s is not None:
            s.hold -= 1
        return False


class Sched:
    def __init__(self, n, plan, *, prefixes, granularity='line', max_steps=400000):
        self.n = n
        self.plan = plan
        self.prefixes = tuple(prefixes)
        self.opcode = (granularity == 'opcode')
        self.instr = (granularity == 'instr')
        self._ident2tid = {}
        self.max_steps = max_steps
        self.sems = [threading.Semaphore(0) for _ in range(n)]
        self.done_sem = threading.Semaphore(0)
        self.state = ['ready'] * n          # ready | done
        self.cur = None
        self.step = 0
        self.executed = []                  # [step, frm, to]
        self.switch_locs = []               # (from loc, to loc) of each executed mid-run switch
        self.parked_loc = ['<start>'] * n
        self.errors = [None] * n
        self.capped = False
        self._traced = {}
        self.on_switch = None               # callback(frm, to) -> None, harness-side accounting
        self.steps_per_thread = [0] * n
        self.hold = 0
        self.abort = False
        self._abort_lock = threading.Lock()
        self.harness_error = None
        self._left = n
        mode = plan['mode']
        self.mode = mode
        if mode == 'explicit':
            self._pending = [list(x) for x in plan.get('switches', [])]
            self._pending.reverse()
            self.first = plan.get('first', 0)
            self._next = self._pending[-1][0] if self._pending else -1
        elif mode == 'uniform':
            self.rng = random.Random(plan['seed'])
            self.p = plan['p']
            self.first = self.rng.randrange(n)
            self._next = self._gap()
        elif mode == 'pct':
            self.rng = random.Random(plan['seed'])
            prio = list(range(n))
            self.rng.shuffle(prio)
            self.prio = prio                # higher runs first
            est = max(2, plan.get('est', 1000))
            self._changes = sorted(self.rng.randrange(1, est) for _ in range(plan.get('d', 1)))
            self._changes.reverse()
            self.first = max(range(n), key=lambda t: prio[t])
            self._low = -1
            self._next = self._changes[-1] if self._changes else -1
        else:
            raise SchedError(f'unknown plan mode {mode}')

    # ---- decisions -----------------------------------------------------------------------
    def _gap(self):
        u = self.rng.random()
        return self.step + int(math.log(1.0 - u) / math.log(1.0 - self.p)) + 1

    def _runnable(self, exclude=None):
        return [t for t in range(self.n) if self.state[t] == 'ready' and t != exclude]

    def _decide(self, tid):
        """Called when step == _next: returns the thread to switch to (or None) and
        arms the next decision step."""
        mode = self.mode
        if mode == 'explicit':
            to = None
            while self._pending and self._pending[-1][0] <= self.step:
                to = self._pending.pop()[1]
            self._next = self._pending[-1][0] if self._pending else -1
            if to is None or to == tid or not (0 <= to < self.n) or self.state[to] != 'ready':
                return None
            return to
        if mode == 'uniform':
            self._next = self._gap()
            others = self._runnable(exclude=tid)
            if not others:
                return None
            return others[self.rng.randrange(len(others))]
        # pct
        while self._changes and self._changes[-1] <= self.step:
            self._changes.pop()
            self.prio[tid] = self._low
            self._low -= 1
        self._next = self._changes[-1] if self._changes else -1
        best = max(self._runnable(), key=lambda t: self.prio[t])
        return best if best != tid else None

    def _decide_finish(self, tid):
        others = self._runnable(exclude=tid)
        if not others:
            return None
        mode = self.mode
        if mode == 'explicit':
            to = None
            while self._pending and self._pending[-1][0] <= self.step:
                to = self._pending.pop()[1]
            self._next = self._pending[-1][0] if self._pending else -1
            if to is not None and to in others:
                return to
            return others[0]
        if mode == 'uniform':
            return others[self.rng.randrange(len(others))]
        return max(others, key=lambda t: self.prio[t])

    # ---- pre-emption point ------------------------------------------------------------------
    def _point(self, tid, frame):
        try:
            self._point_inner(tid, frame)
        except SchedAbort:
            raise
        except BaseException as e:     # noqa  - a fault of the scheduler itself must never reach the code under test as behaviour
            if type(e).__name__ == 'RunTimeout':
                raise
            self.harness_error = e
            self.abort = True
            for sem in self.sems:
                sem.release()
            raise SchedAbort()

    def _point_inner(self, tid, frame):
        if self.hold:
            return
        self.step += 1
        if self.abort:
            raise SchedAbort()
        if self.step > self.max_steps:
            # runaway run: wake everybody up and unwind every thread
            self.capped = True
            self.abort = True
            for sem in self.sems:
                sem.release()
            raise SchedAbort()
        nxt = self._next
        if nxt < 0 or self.step < nxt:
            return
        to = self._decide(tid)
        if to is None:
            return
        if frame is None:
            frame = sys._getframe(3)        # the frame executing the instruction: _point <- _on_instruction <- _Monitor <- it
        code = frame.f_code
        here = '%s:%s:%s' % (code.co_filename.rsplit('/', 1)[-1], code.co_name, frame.f_lineno or 0)     # (no line: clean-up code)
        self.parked_loc[tid] = here
        self.executed.append([self.step, tid, to])
        self.switch_locs.append((here, self.parked_loc[to]))
        if self.on_switch is not None:
            self.on_switch(tid, to)
        self.cur = to
        self.sems[to].release()
        self.sems[tid].acquire()
        if self.abort:
            raise SchedAbort()

    def _make_tracer(self, tid):
        point = self._point
        traced = self._traced
        prefixes = self.prefixes
        opcode = self.opcode
        evname = 'opcode' if opcode else 'line'
        per = self.steps_per_thread

        def local(frame, event, arg):
            if event == evname:
                per[tid] += 1
                point(tid, frame)
            return local

        def glob(frame, event, arg):
            code = frame.f_code
            t = traced.get(code)
            if t is None:
                t = traced[code] = code.co_filename.startswith(prefixes)
            if t:
                if opcode:
                    frame.f_trace_opcodes = True
                return local
            return None
        return glob

    def _on_instruction(self, code, offset):
        tid = self._ident2tid.get(threading.get_ident())
        if tid is None:
            return None
        self.steps_per_thread[tid] += 1
        self._point(tid, None)
        return None

    def _body(self, tid, fn):
        self.sems[tid].acquire()
        if self.instr:
            self._ident2tid[threading.get_ident()] = tid
        else:
            tracer = self._make_tracer(tid)
            sys.settrace(tracer)
        try:
            if not self.abort:
                fn()
        except SchedAbort:
            pass
        except BaseException as e:   # noqa
            self.errors[tid] = e
        finally:
            if self.instr:
                self._ident2tid.pop(threading.get_ident(), None)
            else:
                sys.settrace(None)
            self.state[tid] = 'done'
            if self.abort:
                # no baton any more: the last thread to unwind reports completion
                with self._abort_lock:
                    self._left -= 1
                    last = self._left == 0
                if last:
                    self.done_sem.release()
                return
            self._left -= 1
            self.step += 1
            to = self._decide_finish(tid)
            if to is None:
                self.done_sem.release()
            else:
                self.executed.append([self.step, tid, to])
                self.cur = to
                self.sems[to].release()

    def run(self, fns, timeout=60.0):
        if len(fns) != self.n:
            raise SchedError('number of functions != number of threads')
        threads = [threading.Thread(target=self._body, args=(i, fn), name=f'sim-{i}', daemon=True)
                   for i, fn in enumerate(fns)]
        for t in threads:
            t.start()
        first = self.first if 0 <= self.first < self.n else 0
        self.cur = first
        _ACTIVE[0] = self
        if self.instr:
            _Monitor.enable(self)
        try:
            self.sems[first].release()
            if not self.done_sem.acquire(timeout=timeout):
                raise SchedError(f'scheduled run did not finish within {timeout}s (step {self.step}, states {self.state})')
        finally:
            if self.instr:
                _Monitor.disable()
            _ACTIVE[0] = None
        for t in threads:
            t.join(timeout=5)
        if self.harness_error is not None:
            e = self.harness_error
            raise SchedError(f'scheduler fault at a pre-emption point: {type(e).__name__}: {e}')
        return self

    def explicit_plan(self):
        return {'mode': 'explicit', 'first': self.first, 'switches': [[s, to] for s, frm, to in self.executed]}


def gen_plan(rng, est_steps, n):
    """Swarm-style choice of a schedule strategy for one run."""
    r = rng.random()
    seed = rng.getrandbits(48)
    if r < 0.45:
        return {'mode': 'uniform', 'seed': seed, 'p': rng.choice([0.003, 0.01, 0.03, 0.1, 0.3])}
    if r < 0.85:
        return {'mode': 'pct', 'seed': seed, 'd': rng.choice([1, 2, 3, 5]), 'est': est_steps}
    # a few explicit random switch points (dense near the start, where requests are initialised)
    k = rng.choice([1, 2, 3, 4])
    sw = sorted([rng.randrange(1, max(2, est_steps // rng.choice([1, 2, 4, 8]))), rng.randrange(n)] for _ in range(k))
    return {'mode': 'explicit', 'first': rng.randrange(n), 'switches': sw}


def simpler_plans(plan):
    """Shrink candidates for an explicit plan: drop switches."""
    if plan.get('mode') != 'explicit':
        return
    sw = plan.get('switches', [])
    n = len(sw)
    size = n // 2
    while size >= 1:
        for start in range(0, n, size):
            out = sw[:start] + sw[start + size:]
            if len(out) < n:
                yield {'mode': 'explicit', 'first': plan.get('first', 0), 'switches': out}
        if size == 1:
            break
        size //= 2
    if plan.get('first', 0) != 0:
        yield {'mode': 'explicit', 'first': 0, 'switches': sw}
